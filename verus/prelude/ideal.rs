// A3 (idealisation: machine arithmetic treated as mathematical).  R maps an f32 to the real number it denotes; the
// f32 operators are assumed to be the exact real operators under R (no rounding, no overflow, no NaN, no -0).  Used
// ONLY by obligations tagged `idealised`; never for panic-freedom, bounds or exactness obligations.  The driver checks
// on every run that `false` is not derivable in a unit that imports these axioms (vacuity probe).
pub mod ideal {
    use vstd::prelude::*;
    use vstd::std_specs::ops::*;
    use vstd::std_specs::cmp::*;
    use core::cmp::Ordering;
    use super::fax::{i2f, f2i, fneg_spec, fabs_spec};
    use super::fstd::{fclamp_spec, fmax_spec, fmin_spec, fconst_spec, frecip_spec, fmul_add_spec};
    pub uninterp spec fn R(x: f32) -> real;
    /// the real number an integer becomes when converted to f32 (`i as f32`).  Kept abstract (monotone, sign-preserving,
    /// 0 -> 0) in group a3: the conversion rounds, so `cvt(a) - cvt(b)` is NOT assumed equal to `cvt(a - b)` -- a change
    /// that converts two timestamps separately and subtracts the floats is thereby distinguishable from one that
    /// subtracts the integers first.  Units whose statement needs exact integer conversion add group a3_int_exact.
    pub uninterp spec fn cvt(i: int) -> real;
    pub open spec fn secs(ns: int) -> real { cvt(ns) / 1000000000real }
    pub broadcast axiom fn ax_r_add(a: f32, b: f32) ensures #[trigger] R(a.add_spec(b)) == R(a) + R(b);
    pub broadcast axiom fn ax_r_sub(a: f32, b: f32) ensures #[trigger] R(a.sub_spec(b)) == R(a) - R(b);
    pub broadcast axiom fn ax_r_mul(a: f32, b: f32) ensures #[trigger] R(a.mul_spec(b)) == R(a) * R(b);
    pub broadcast axiom fn ax_r_div(a: f32, b: f32) requires R(b) != 0real ensures #[trigger] R(a.div_spec(b)) == R(a) / R(b);
    pub broadcast axiom fn ax_r_neg(a: f32) ensures #[trigger] R(fneg_spec(a)) == -R(a);
    pub broadcast axiom fn ax_r_abs(a: f32) ensures #[trigger] R(fabs_spec(a)) == (if R(a) >= 0real { R(a) } else { -R(a) });
    // float -> integer cast truncates toward zero; stated for the non-negative range (used for durations)
    pub broadcast axiom fn ax_r_f2i(a: f32) requires R(a) >= 0real ensures (#[trigger] f2i(a)) as real <= R(a), R(a) < f2i(a) as real + 1real;
    pub broadcast axiom fn ax_r_i2f(i: i64) ensures #[trigger] R(i2f(i)) == cvt(i as int);
    pub broadcast axiom fn ax_cvt_sign(i: int) ensures i == 0 ==> #[trigger] cvt(i) == 0real, i > 0 ==> cvt(i) > 0real, i < 0 ==> cvt(i) < 0real;
    pub broadcast axiom fn ax_cvt_mono(i: int, j: int) requires i <= j ensures #[trigger] cvt(i) <= #[trigger] cvt(j);
    pub broadcast axiom fn ax_cvt_exact(i: int) ensures #[trigger] cvt(i) == i as real;
    pub broadcast axiom fn ax_r_eq(a: f32, b: f32) ensures #[trigger] a.eq_spec(&b) == (R(a) == R(b));
    pub broadcast axiom fn ax_r_cmp(a: f32, b: f32) ensures
        (#[trigger] a.partial_cmp_spec(&b)) == (if R(a) < R(b) { Some(Ordering::Less) } else if R(a) == R(b) { Some(Ordering::Equal) } else { Some(Ordering::Greater) });
    // literals that occur in the verified code
    pub broadcast axiom fn ax_r_lits() ensures
        #[trigger] R(0.0f32) == 0real, R(1.0f32) == 1real, R(2.0f32) == 2real, R(3.0f32) == 3real, R(0.5f32) == 0.5real,
        R(-1.0f32) == -1real, R(1_000_000_000.0f32) == 1000000000real;
    // std float methods / constants an edit may introduce (fstd in f32_axioms.rs): their real-number meaning
    pub broadcast axiom fn ax_r_clamp(x: f32, lo: f32, hi: f32) requires R(lo) <= R(hi)
        ensures R(#[trigger] fclamp_spec(x, lo, hi)) == (if R(x) < R(lo) { R(lo) } else if R(x) > R(hi) { R(hi) } else { R(x) });
    pub broadcast axiom fn ax_r_max(a: f32, b: f32) ensures R(#[trigger] fmax_spec(a, b)) == (if R(a) >= R(b) { R(a) } else { R(b) });
    pub broadcast axiom fn ax_r_min(a: f32, b: f32) ensures R(#[trigger] fmin_spec(a, b)) == (if R(a) <= R(b) { R(a) } else { R(b) });
    pub broadcast axiom fn ax_r_eps() ensures R(#[trigger] fconst_spec(0)) == 0.00000011920928955078125real;
    pub broadcast axiom fn ax_r_recip(a: f32) requires R(a) != 0real ensures R(#[trigger] frecip_spec(a)) == 1real / R(a);
    pub broadcast axiom fn ax_r_mul_add(a: f32, b: f32, c: f32) ensures R(#[trigger] fmul_add_spec(a, b, c)) == R(a) * R(b) + R(c);
    pub broadcast group a3 { ax_r_clamp, ax_r_max, ax_r_min, ax_r_eps, ax_r_recip, ax_r_mul_add, ax_r_abs, ax_r_f2i, ax_r_add, ax_r_sub, ax_r_mul, ax_r_div, ax_r_neg, ax_r_i2f, ax_cvt_sign, ax_cvt_mono, ax_r_eq, ax_r_cmp, ax_r_lits }
    pub broadcast group a3_int_exact { ax_cvt_exact }
}
use ideal::{R, cvt, secs};
