// Panics of the real code are kept as proof obligations: assert!/debug_assert_eq! -> vassert (requires the condition),
// unimplemented!/panic! -> vpanic (requires false).
pub const fn vassert(b: bool) requires b {}
#[verifier::external_body]
pub fn vpanic() -> ! requires false { panic!() }
