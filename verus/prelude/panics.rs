// Panics of the real code are kept as proof obligations: assert!/debug_assert_eq! -> vassert (requires the condition),
// unimplemented!/panic! -> vpanic (requires false).
pub const fn vassert(b: bool) requires b {}
#[verifier::external_body]
pub fn vpanic() -> ! requires false { panic!() }
// For functions the property allows to panic ("the constructor either panics or ..."): an assert! is a run-time check;
// if it returns the condition holds.
#[verifier::external_body]
pub fn vcheck(b: bool) ensures b { assert!(b) }
