// Panics of the real code are kept as proof obligations: assert!/debug_assert_eq! -> vassert (requires the condition),
// unimplemented!/panic! -> vpanic (requires false).
pub const fn vassert(b: bool) requires b {}
#[verifier::external_body]
pub fn vpanic() -> ! requires false { panic!() }
// For functions the property allows to panic ("the constructor either panics or ..."): an assert! is a run-time check;
// if it returns the condition holds.
#[verifier::external_body]
pub fn vcheck(b: bool) ensures b { assert!(b) }
// Integer `abs` (Verus: "not supported"): the pinned code does not call it; an edit that does is decided, not rejected.
pub assume_specification[ i8::abs ](x: i8) -> (r: i8) requires x != i8::MIN ensures r == (if x < 0 { -x } else { x as int });
pub assume_specification[ i64::abs ](x: i64) -> (r: i64) requires x != i64::MIN ensures r == (if x < 0 { -x } else { x as int });
