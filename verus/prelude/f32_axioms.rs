// A1: f32 `+ - * /`, `==`, `<` ... are total deterministic functions: the operator preconditions are true and the
// executable operators return exactly the (uninterpreted) spec functions add_spec/sub_spec/mul_spec/div_spec/
// eq_spec/partial_cmp_spec.  Nothing else is assumed about them here (no algebraic law).
pub mod fax {
    use vstd::prelude::*;
    use vstd::std_specs::ops::*;
    use vstd::std_specs::cmp::*;
    pub broadcast axiom fn ax_add_req(a: f32, b: f32) ensures #[trigger] AddSpec::add_req(a, b);
    pub broadcast axiom fn ax_sub_req(a: f32, b: f32) ensures #[trigger] SubSpec::sub_req(a, b);
    pub broadcast axiom fn ax_mul_req(a: f32, b: f32) ensures #[trigger] MulSpec::mul_req(a, b);
    pub broadcast axiom fn ax_div_req(a: f32, b: f32) ensures #[trigger] DivSpec::div_req(a, b);
    pub broadcast axiom fn ax_add_obeys() ensures #[trigger] <f32 as AddSpec>::obeys_add_spec();
    pub broadcast axiom fn ax_sub_obeys() ensures #[trigger] <f32 as SubSpec>::obeys_sub_spec();
    pub broadcast axiom fn ax_mul_obeys() ensures #[trigger] <f32 as MulSpec>::obeys_mul_spec();
    pub broadcast axiom fn ax_div_obeys() ensures #[trigger] <f32 as DivSpec>::obeys_div_spec();
    pub broadcast axiom fn ax_eq_obeys() ensures #[trigger] <f32 as PartialEqSpec>::obeys_eq_spec();
    pub broadcast axiom fn ax_ord_obeys() ensures #[trigger] <f32 as PartialOrdSpec>::obeys_partial_cmp_spec();
    // Casts and negation: Verus gives `x as f32` / `x as i64` an unspecified result and rejects unary minus on
    // floats, so the extraction rewrites them to named total functions (logged as rewrites S with the site count).
    pub uninterp spec fn i2f(i: i64) -> f32;
    pub uninterp spec fn f2i(x: f32) -> i64;
    pub uninterp spec fn fneg_spec(x: f32) -> f32;
    pub uninterp spec fn fabs_spec(x: f32) -> f32;
    pub broadcast group a1 {
        ax_add_req, ax_sub_req, ax_mul_req, ax_div_req, ax_add_obeys, ax_sub_obeys, ax_mul_obeys, ax_div_obeys,
        ax_eq_obeys, ax_ord_obeys,
    }
}
// (each unit writes its single module-level `broadcast use` naming fax::a1 plus its own literal-fact groups)

pub use fax::{i2f, f2i, fneg_spec, fabs_spec};
#[verifier::external_body]
pub fn i64_to_f32(i: i64) -> (r: f32) ensures r == i2f(i) { i as f32 }
#[verifier::external_body]
pub fn f32_to_i64(x: f32) -> (r: i64) ensures r == f2i(x) { x as i64 }
#[verifier::external_body]
pub fn fneg(x: f32) -> (r: f32) ensures r == fneg_spec(x) { -x }
pub open spec fn flt(a: f32, b: f32) -> bool { a.partial_cmp_spec(&b) == Some(Ordering::Less) }
pub open spec fn fle(a: f32, b: f32) -> bool { a.partial_cmp_spec(&b) == Some(Ordering::Less) || a.partial_cmp_spec(&b) == Some(Ordering::Equal) }
pub open spec fn fgt(a: f32, b: f32) -> bool { a.partial_cmp_spec(&b) == Some(Ordering::Greater) }
pub open spec fn fge(a: f32, b: f32) -> bool { a.partial_cmp_spec(&b) == Some(Ordering::Greater) || a.partial_cmp_spec(&b) == Some(Ordering::Equal) }
#[verifier::external_body]
pub fn fabs(x: f32) -> (r: f32) ensures r == fabs_spec(x) { x.abs() }
