// A1: f32 `+ - * /`, `==`, `<` ... are total deterministic functions: the operator preconditions are true and the
// executable operators return exactly the (uninterpreted) spec functions add_spec/sub_spec/mul_spec/div_spec/
// eq_spec/partial_cmp_spec.  Nothing else is assumed about them here (no algebraic law).
pub mod fax {
    use vstd::prelude::*;
    use vstd::std_specs::ops::*;
    use vstd::std_specs::cmp::*;
    pub broadcast axiom fn ax_add_req(a: f32, b: f32) ensures #[trigger] AddSpec::add_req(a, b);
    pub broadcast axiom fn ax_sub_req(a: f32, b: f32) ensures #[trigger] SubSpec::sub_req(a, b);
    pub broadcast axiom fn ax_mul_req(a: f32, b: f32) ensures #[trigger] MulSpec::mul_req(a, b);
    pub broadcast axiom fn ax_div_req(a: f32, b: f32) ensures #[trigger] DivSpec::div_req(a, b);
    pub broadcast axiom fn ax_add_obeys() ensures #[trigger] <f32 as AddSpec>::obeys_add_spec();
    pub broadcast axiom fn ax_sub_obeys() ensures #[trigger] <f32 as SubSpec>::obeys_sub_spec();
    pub broadcast axiom fn ax_mul_obeys() ensures #[trigger] <f32 as MulSpec>::obeys_mul_spec();
    pub broadcast axiom fn ax_div_obeys() ensures #[trigger] <f32 as DivSpec>::obeys_div_spec();
    pub broadcast axiom fn ax_eq_obeys() ensures #[trigger] <f32 as PartialEqSpec>::obeys_eq_spec();
    // IEEE-754 `==` is symmetric (the one algebraic law assumed of the operators: it is boolean-valued and exact, so
    // `a == b` and `b == a` in the code are the same test)
    pub broadcast axiom fn ax_eq_sym(a: f32, b: f32) ensures #[trigger] a.eq_spec(&b) == b.eq_spec(&a);
    pub broadcast axiom fn ax_ord_obeys() ensures #[trigger] <f32 as PartialOrdSpec>::obeys_partial_cmp_spec();
    // Casts and negation: Verus gives `x as f32` / `x as i64` an unspecified result and rejects unary minus on
    // floats, so the extraction rewrites them to named total functions (logged as rewrites S with the site count).
    pub uninterp spec fn i2f(i: i64) -> f32;
    pub uninterp spec fn f2i(x: f32) -> i64;
    pub uninterp spec fn fneg_spec(x: f32) -> f32;
    pub uninterp spec fn fabs_spec(x: f32) -> f32;
    pub broadcast group a1 {
        ax_add_req, ax_sub_req, ax_mul_req, ax_div_req, ax_add_obeys, ax_sub_obeys, ax_mul_obeys, ax_div_obeys,
        ax_eq_obeys, ax_ord_obeys, ax_eq_sym,
    }
}
// (each unit writes its single module-level `broadcast use` naming fax::a1 plus its own literal-fact groups)

pub use fax::{i2f, f2i, fneg_spec, fabs_spec};
#[verifier::external_body]
pub fn i64_to_f32(i: i64) -> (r: f32) ensures r == i2f(i) { i as f32 }
#[verifier::external_body]
pub fn f32_to_i64(x: f32) -> (r: i64) ensures r == f2i(x) { x as i64 }
#[verifier::external_body]
pub fn fneg(x: f32) -> (r: f32) ensures r == fneg_spec(x) { -x }
pub open spec fn flt(a: f32, b: f32) -> bool { a.partial_cmp_spec(&b) == Some(Ordering::Less) }
pub open spec fn fle(a: f32, b: f32) -> bool { a.partial_cmp_spec(&b) == Some(Ordering::Less) || a.partial_cmp_spec(&b) == Some(Ordering::Equal) }
pub open spec fn fgt(a: f32, b: f32) -> bool { a.partial_cmp_spec(&b) == Some(Ordering::Greater) }
pub open spec fn fge(a: f32, b: f32) -> bool { a.partial_cmp_spec(&b) == Some(Ordering::Greater) || a.partial_cmp_spec(&b) == Some(Ordering::Equal) }
#[verifier::external_body]
pub fn fabs(x: f32) -> (r: f32) ensures r == fabs_spec(x) { x.abs() }

// A1 extended to std float methods and constants the pinned code does not use: an edit that introduces one of them is
// thereby DECIDED against the contracts (a clamp / max / epsilon in a formula fails the function's postcondition unless
// the contract allows it) instead of being rejected as "not supported" (which would leave the check undecided).
// Each is the deterministic, otherwise unknown, value the std method returns (their panics, e.g. clamp with lo > hi,
// are not modelled: none of these methods occurs in the pinned code).
pub mod fstd {
    use vstd::prelude::*;
    pub uninterp spec fn fclamp_spec(x: f32, lo: f32, hi: f32) -> f32;
    pub uninterp spec fn fmax_spec(a: f32, b: f32) -> f32;
    pub uninterp spec fn fmin_spec(a: f32, b: f32) -> f32;
    pub uninterp spec fn fsqrt_spec(a: f32) -> f32;
    pub uninterp spec fn fsignum_spec(a: f32) -> f32;
    pub uninterp spec fn fcopysign_spec(a: f32, b: f32) -> f32;
    pub uninterp spec fn fmul_add_spec(a: f32, b: f32, c: f32) -> f32;
    pub uninterp spec fn frecip_spec(a: f32) -> f32;
    pub uninterp spec fn fconst_spec(which: int) -> f32;
}
pub assume_specification[ f32::clamp ](x: f32, lo: f32, hi: f32) -> (r: f32) ensures r == fstd::fclamp_spec(x, lo, hi);
pub assume_specification[ f32::max ](a: f32, b: f32) -> (r: f32) ensures r == fstd::fmax_spec(a, b);
pub assume_specification[ f32::min ](a: f32, b: f32) -> (r: f32) ensures r == fstd::fmin_spec(a, b);
pub assume_specification[ f32::abs ](a: f32) -> (r: f32) ensures r == fabs_spec(a);
pub assume_specification[ f32::sqrt ](a: f32) -> (r: f32) ensures r == fstd::fsqrt_spec(a);
pub assume_specification[ f32::signum ](a: f32) -> (r: f32) ensures r == fstd::fsignum_spec(a);
pub assume_specification[ f32::copysign ](a: f32, b: f32) -> (r: f32) ensures r == fstd::fcopysign_spec(a, b);
pub assume_specification[ f32::mul_add ](a: f32, b: f32, c: f32) -> (r: f32) ensures r == fstd::fmul_add_spec(a, b, c);
pub assume_specification[ f32::recip ](a: f32) -> (r: f32) ensures r == fstd::frecip_spec(a);
// f32::EPSILON / MAX / MIN / MIN_POSITIVE / INFINITY / NEG_INFINITY / NAN are rewritten to f32_const(k) (rewrite R16)
#[verifier::external_body]
pub fn f32_const(which: u8) -> (r: f32) ensures r == fstd::fconst_spec(which as int) {
    match which { 0 => f32::EPSILON, 1 => f32::MAX, 2 => f32::MIN, 3 => f32::MIN_POSITIVE, 4 => f32::INFINITY, 5 => f32::NEG_INFINITY, _ => f32::NAN }
}
