// R6: Reference<G> is a trusted opaque stub: borrow()/borrow_mut() hand out the one target object `t`.  The real type
// is an enum of raw pointer / Rc<RefCell> / Arc<Mutex> ... (src/reference.rs), whose aliasing behaviour is C17's
// subject and is verified with Kani.  Input getters are arbitrary: get() returns get_spec(), any fixed Output.
pub struct Reference<T> { pub t: T }
impl<T> Reference<T> {
    #[verifier::external_body]
    pub fn borrow(&self) -> (r: &T) ensures *r == self.t { &self.t }
}
