// ===== prelude (hand-written, trusted; no executable code of /repo lives here) ==========================
#![allow(unused_imports, dead_code, unused_variables, unused_mut, unused_parens, non_snake_case)]
use vstd::prelude::*;
use vstd::std_specs::ops::*;
use vstd::std_specs::cmp::*;
use core::fmt::Debug;
use core::marker::PhantomData;
use core::ops::{Add, AddAssign, Div, DivAssign, Mul, MulAssign, Neg, Not, Sub, SubAssign};
use core::cmp::Ordering;
