#!/usr/bin/env python3
"""Maintenance step (run by hand on the unchanged tree after the obligations changed, never by a check): set the
vacuity-guard minimum of every property to 90 % of the number of obligation records in its last evidence file.
usage: refresh_expected_counts.py [<dir with thorough-tier evidence>]"""
import json, os, sys
V = os.path.dirname(os.path.dirname(os.path.abspath(__file__)))
p = os.path.join(V, "contracts", "expected_counts.json")
cur = json.load(open(p))
def count(path):
    d = json.load(open(path))
    return len(d["coverage"].get("obligation_records", [])), d.get("tier")
for i in range(1, 21):
    pid = "C%02d" % i
    q = os.path.join(V, "evidence", pid + ".json")
    if os.path.exists(q):
        n, tier = count(q)
        if tier == "quick":
            cur.setdefault(pid, {})["quick"] = int(n * 0.9)
            # the thorough tier runs at least the quick obligations
            cur[pid]["thorough"] = max(int(n * 0.9), 0)
    if len(sys.argv) > 1:
        t = os.path.join(sys.argv[1], pid + ".json")
        if os.path.exists(t):
            n, tier = count(t)
            if tier == "thorough":
                cur[pid]["thorough"] = int(n * 0.9)
json.dump(cur, open(p, "w"), indent=1)
open(p, "a").write("\n")
print(json.dumps(cur))
