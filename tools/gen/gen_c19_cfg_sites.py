#!/usr/bin/env python3
"""Regenerate contracts/c19_cfg_sites.json from /repo's current tree (maintenance step, run by hand after the cfg sites
of the crate were reviewed and every value-affecting one is covered by a c19_* obligation; the check never writes it)."""
import json, os, sys
sys.path.insert(0, os.path.join(os.path.dirname(os.path.abspath(__file__)), ".."))
import run
sites = run.cfg_sites()
out = [{"file": s["file"], "cfg": s["cfg"], "target": s["target"]} for s in sites]
p = os.path.join(run.VERIF, "contracts", "c19_cfg_sites.json")
with open(p, "w") as f:
    json.dump(out, f, indent=1)
    f.write("\n")
print("%d sites -> %s" % (len(out), p))
