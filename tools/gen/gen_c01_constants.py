#!/usr/bin/env python3
"""Generates /verif/kani/c01_constants.rs: one obligation per named unit constant of
src/dimensions/constants.rs, asserting  NAME.const_eq(&Unit::new(m, s))  where (m, s) is derived from the
constant's NAME ONLY by the grammar below (the `Unit::new(..)` initialisers of the table are never read).

    name    := "DIMENSIONLESS" | ["INVERSE"] factors | factors "PER" factors          (tokens separated by "_")
    factors := factor+                                  (each base at most once in a name)
    factor  := ("MILLIMETER" | "SECOND") ["SQUARED" | "CUBED"]

A factor contributes exponent 1 / 2 / 3 to its base; every factor after INVERSE or after PER is negated
("INVERSE_MILLIMETER_CUBED_SECOND_SQUARED" = mm^-3 s^-2, "SECOND_PER_MILLIMETER" = mm^-1 s^1).
The module documentation's ordering rule (millimetre first unless second is positive and millimetre negative) and
canonical spelling (INVERSE only when no exponent is positive, PER only when signs are mixed) are enforced too, and
the set of names must map one-to-one onto the grid [-3,3] x [-3,3]; otherwise nothing is written (exit 1).

Usage: gen_c01_constants.py [path-to-repo]   (default /repo).  The output is committed."""
import os
import re
import sys

REPO = sys.argv[1] if len(sys.argv) > 1 else os.environ.get("VERIF_REPO", "/repo")
SRC = os.path.join(REPO, "src", "dimensions", "constants.rs")
OUT = os.path.join(os.path.dirname(os.path.abspath(__file__)), "..", "..", "kani", "c01_constants.rs")

POW = {"SQUARED": 2, "CUBED": 3}
BASES = ("MILLIMETER", "SECOND")


class NameError_(Exception):
    pass


def exponents(name):
    """(millimeter_exp, second_exp) stated by a constant's name."""
    if name == "DIMENSIONLESS":
        return (0, 0)
    toks = name.split("_")
    sign = 1
    factors = []  # [base, exponent] in order of appearance
    prev = None   # kind of the previous token: None | INVERSE | PER | BASE | POW
    seen_per = seen_inv = False
    for t in toks:
        if t == "INVERSE":
            if prev is not None:
                raise NameError_("%s: INVERSE must be the first token" % name)
            sign, seen_inv, prev = -1, True, "INVERSE"
        elif t == "PER":
            if seen_inv or seen_per or prev not in ("BASE", "POW"):
                raise NameError_("%s: misplaced PER" % name)
            sign, seen_per, prev = -1, True, "PER"
        elif t in BASES:
            if any(f[0] == t for f in factors):
                raise NameError_("%s: base %s twice" % (name, t))
            factors.append([t, sign])
            prev = "BASE"
        elif t in POW:
            if prev != "BASE":
                raise NameError_("%s: %s must directly follow a base unit" % (name, t))
            factors[-1][1] *= POW[t]
            prev = "POW"
        else:
            raise NameError_("%s: unknown token %s" % (name, t))
    if prev not in ("BASE", "POW"):
        raise NameError_("%s: name ends in %s" % (name, prev))
    e = {"MILLIMETER": 0, "SECOND": 0}
    for b, x in factors:
        e[b] = x
    m, s = e["MILLIMETER"], e["SECOND"]
    # canonical spelling and the ordering rule of the module documentation
    order = [f[0] for f in factors]
    if len(order) == 2:
        want = ["SECOND", "MILLIMETER"] if (s > 0 and m < 0) else ["MILLIMETER", "SECOND"]
        if order != want:
            raise NameError_("%s: factor order violates the documented naming rule" % name)
    if seen_inv and (m > 0 or s > 0):
        raise NameError_("%s: INVERSE with a positive exponent" % name)
    if seen_per and not (min(m, s) < 0 < max(m, s)):
        raise NameError_("%s: PER without mixed signs" % name)
    if not seen_inv and not seen_per and (m < 0 or s < 0):
        raise NameError_("%s: negative exponent without INVERSE/PER" % name)
    return (m, s)


def main():
    text = open(SRC).read()
    decls = [(m.group(1), text.count("\n", 0, m.start()) + 1)
             for m in re.finditer(r"^\s*pub\s+const\s+([A-Z0-9_]+)\s*:\s*Unit\s*=", text, re.M)]
    all_consts = re.findall(r"^\s*pub\s+const\s+(\w+)", text, re.M)
    errs = []
    if len(all_consts) != len(decls):
        errs.append("constants.rs declares %d constants but only %d are `: Unit`" % (len(all_consts), len(decls)))
    table = []
    for name, line in decls:
        try:
            table.append((name, line, exponents(name)))
        except NameError_ as e:
            errs.append(str(e))
    pairs = [p for _, _, p in table]
    grid = {(m, s) for m in range(-3, 4) for s in range(-3, 4)}
    if len(decls) != 49:
        errs.append("expected 49 unit constants, found %d" % len(decls))
    if len(set(pairs)) != len(pairs):
        dup = sorted({p for p in pairs if pairs.count(p) > 1})
        errs.append("two names state the same exponents: %s" % dup)
    if set(pairs) != grid:
        errs.append("names do not cover [-3,3]x[-3,3]: missing %s extra %s" % (sorted(grid - set(pairs)), sorted(set(pairs) - grid)))
    if errs:
        sys.stderr.write("gen_c01_constants: NOT WRITTEN\n  " + "\n  ".join(errs) + "\n")
        return 1
    L = []
    A = L.append
    A("//@host src/dimensions.rs")
    A("//@config dev")
    A("// GENERATED by tools/gen/gen_c01_constants.py from the constant NAMES in src/dimensions/constants.rs (C01).")
    A("// Expected exponents come from the name grammar in the generator, never from the table's initialisers.")
    A("// The generator checked: %d names, %d distinct exponent pairs, exactly the grid [-3,3]x[-3,3]." % (len(table), len(set(pairs))))
    A("#![allow(unused_imports, dead_code)]")
    A("use crate::*;")
    A("use crate::verif_support::*;")
    A("")
    A("macro_rules! unit_const {")
    A("    ($name:ident, $c:ident, $m:expr, $s:expr, $msg:literal) => {")
    A("        #[kani::proof]")
    A("        fn $name() {")
    A("            let want = Unit::new($m, $s);")
    A("            assert!($c.const_eq(&want), $msg);")
    A("            assert!($c == want && $c.millimeter_exp == $m && $c.second_exp == $s);")
    A("            reach!();")
    A("        }")
    A("    };")
    A("}")
    for name, line, (m, s) in table:
        A('//@ob fn="%s" at=src/dimensions/constants.rs:%d clause="constant %s has the exponents its name states: mm^%d s^%d"'
          % (name, line, name, m, s))
        A('unit_const!(c01_const_%s, %s, %d, %d, "%s is mm^%d s^%d as its name states");' % (name.lower(), name, m, s, name, m, s))
    A("")
    A('//@ob fn="dimensions::constants" at=src/dimensions/constants.rs:1 clause="the %d named constants are pairwise distinct units and are exactly the grid [-3,3]x[-3,3]: every grid unit equals one of them"' % len(table))
    A("#[kani::proof]")
    A("#[kani::unwind(%d)]" % (len(table) + 2))
    A("fn c01_const_grid_complete() {")
    A("    let all: [Unit; %d] = [%s];" % (len(table), ", ".join(n for n, _, _ in table)))
    A("    let (m, s): (i8, i8) = (kani::any(), kani::any());")
    A("    let u = Unit::new(m, s);")
    A("    let mut hits = 0u32;")
    A("    let mut i = 0;")
    A("    while i < %d { if all[i] == u { hits += 1; } i += 1; }" % len(table))
    A("    let in_grid = m >= -3 && m <= 3 && s >= -3 && s <= 3;")
    A("    assert!(hits == if in_grid { 1 } else { 0 });")
    A("    reach!();")
    A("}")
    open(OUT, "w").write("\n".join(L) + "\n")
    print("wrote %s: %d constants" % (os.path.normpath(OUT), len(table)))
    return 0


if __name__ == "__main__":
    sys.exit(main())
