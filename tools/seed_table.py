#!/usr/bin/env python3
"""Prints the markdown table of seeded changes (seeded/*/meta.json) for DESIGN.md section 11."""
import glob
import json
import os
import re

VERIF = os.path.dirname(os.path.dirname(os.path.abspath(__file__)))
rows = []
for m in sorted(glob.glob(os.path.join(VERIF, "seeded", "C*", "meta.json"))):
    d = json.load(open(m))
    notes = ""
    np_ = os.path.join(os.path.dirname(m), "NOTES.md")
    patch = open(os.path.join(os.path.dirname(m), "patch.diff")).read()
    files = sorted(set(re.findall(r"^\+\+\+ b/(\S+)", patch, re.M)))
    chk = d["steps"].get("check", {})
    obs = []
    for l in chk.get("lines", []):
        mm = re.search(r"replay=\S*/([^/\s]+)\.json", l)
        if mm:
            obs.append(mm.group(1))
    what = ""
    if os.path.exists(np_):
        t = open(np_).read()
        mm = re.search(r"(?im)^\W*(?:clause|property clause)[^\n:]*:\s*(.+)$", t)
        what = (mm.group(1) if mm else t.strip().splitlines()[0]).strip()[:160]
    res = "VIOLATION" if d.get("detected") else ("UNDECIDED (exit 2)" if chk.get("exit") == 2 else "not detected")
    rows.append("| %s | %s | %s | %s | %s | %s |" % (d["name"], ", ".join(files), what.replace("|", "/"), "yes" if d.get("confirmed") else "NO", res,
                                                  ", ".join(obs[:4]) + (" ..." if len(obs) > 4 else "")))
print("| seed | file(s) changed | what breaks (author's note) | confirmed (tests pass, demo fails) | check result | refuted obligations |")
print("|---|---|---|---|---|---|")
print("\n".join(rows))
