"""./check --replay <path>: re-run one replay file against /repo's current working tree.

Kani replays: the stored concrete-playback unit test is injected next to its harness into a fresh scratch copy of /repo and
executed natively (cargo kani playback --lib): exit 1 if the harness' assertion still fails on the real code, 0 if not.
Verus replays (no counterexample exists): the unit is re-extracted and re-verified; exit 1 if the named obligation still fails.
"""
import json
import os
import sys

import common
import kani_engine as K
from common import Undecided, log


def main(path):
    d = json.loads(common.read(path))
    try:
        if d.get("engine") == "kani":
            return replay_kani(d)
        if d.get("engine") == "verus":
            return replay_verus(d)
        if d.get("engine") == "kani-ext":
            return replay_ext(d)
        print("unknown engine in replay file")
        return 2
    except Undecided as u:
        log("UNDECIDED replay: %s" % u)
        return 2


def replay_kani(d):
    pb = d.get("playback") or {}
    if not pb.get("generated"):
        print("replay file carries no counterexample (no-failing-input-found); failed checks were:")
        print(json.dumps(d.get("failed_checks"), indent=1))
        return 1
    cfg = d["config"]
    mods = K.discover()
    needed = {d["harness_module"]}
    scratch = common.new_scratch("replay")
    common.copy_repo(scratch)
    cm = []
    for m in mods:
        if m["stem"] in needed or (("*" in m["configs"] or cfg in m["configs"]) and (m.get("always") or m["stem"] == "support")):
            mm = dict(m)
            mm["configs"] = [cfg]
            cm.append(mm)
    K.annotate(scratch, cm, cfg)
    res = K.run_playback_test(scratch, cfg, d["harness_module"] + ".rs", pb["test_code"], pb["test"], pb.get("harness_short"))
    print("replayed %s natively: ran=%s failed=%s" % (pb["test"], res["native_ran"], res["native_failed"]))
    for p in res["native_panic"]:
        print("  " + p.replace("\n", " | "))
    if not res["native_ran"]:
        print(res["native_output_tail"][-1500:])
        return 2
    return 1 if res["native_failed"] else 0


def replay_ext(d):
    """Downstream harness crate: rebuild it against a fresh copy of /repo's working tree and run the native twin of the
    harness (plain rustc, concrete inputs); for a "does not compile" obligation re-run the compile differential."""
    exts = [e for e in K.discover_ext() if e["crate"] == d["crate"]]
    if not exts:
        raise Undecided("ext crate %s not found" % d["crate"])
    if d.get("probe"):
        prs = [q for q in exts[0].get("probes", []) if q["name"] == d["probe"]]
        if not prs:
            raise Undecided("probe %s not found" % d["probe"])
        r = K.run_ext_probes(exts[0], prs)[d["probe"]]
        print("re-compiled probe %s: %s" % (d["probe"], "rejected by rustc (obligation holds)" if r["rejected"] else "COMPILES: safe code can write this expression"))
        for e in r["errors"]:
            print("  " + e)
        return 0 if r["rejected"] else 1
    cdir = K.prepare_ext_crate(exts[0])
    if d.get("compile_error"):
        blame = K.expansion_blame(cdir)
        print("re-ran the compile differential of %s: %s" % (d["crate"], "the expansion still does not compile" if blame else "builds (or the failure is not attributable to the macro)"))
        if blame:
            print(blame["diagnostics"][-1500:])
        return 1 if blame else 0
    twin = d.get("native_twin")
    rc, out, _ = common.run(["cargo", "test", "--offline", "--", twin], cwd=cdir, timeout=1800)
    ran = ("test result:" in out) and (twin in out)
    failed = "test result: FAILED" in out
    print("replayed %s natively: ran=%s failed=%s" % (twin, ran, failed))
    if not ran:
        print(out[-1500:])
        return 2
    if failed:
        import re
        for pm in re.findall(r"panicked at [^\n]*\n[^\n]*", out)[:3]:
            print("  " + pm.replace("\n", " | "))
    return 1 if failed else 0


def replay_verus(d):
    import verus_engine as V
    prop = d["property"]
    obs = [o for o in V.obligations(prop, "thorough") if o["unit"] == d["unit"]]
    if not obs:
        raise Undecided("unit %s not found" % d["unit"])
    tmp = os.path.join(common.VERIF, "replays", "_replay_tmp")
    os.makedirs(tmp, exist_ok=True)
    recs, viol, _info, _cmds = V.run(prop, "quick", obs, 4, tmp, set())
    still = [v for v in viol if v["rec"]["name"] == d["obligation"]]
    print("re-verified unit %s: obligation %s %s" % (d["unit"], d["obligation"], "still FAILS" if still else "is discharged"))
    if still:
        print(json.dumps(still[0]["rec"].get("failed"), indent=1))
    return 1 if still else 0


if __name__ == "__main__":
    sys.exit(main(sys.argv[1]))
