"""Engine V: Verus on functions cut mechanically out of /repo on every run.

A unit is a template /verif/verus/<unit>.vrs: literal Verus text plus directives (all start with //@):

  //@unit <name>            //@props C04,C05          //@tier quick|thorough
  //@features std,alloc,dim_check,devices              cfg resolution (R4); default: std,alloc,internal_enhanced_float,dim_check,debug_assertions
  //@include <file under verus/>                       literal inclusion of shared prelude text
  //@extract file=<src file> item="<header prefix>"    cut one item (struct/enum/type/const/fn) verbatim
  //@extract file=<src file> impl="<impl header>" fns=a,b [as=inherent] [rename=a:a2] [subst="T=f32"]
  //@extract file=<src file> modfn="<fn header prefix>"  free function, spec-able like impl fns
        any //@extract may carry within="mod <name>": anchors are then searched only inside that inline module's braces
        followed, up to //@endextract, by optional blocks
  //@spec <fn>              requires/ensures/decreases text put between signature and body; the return value is named `r`
  //@loop <fn> <k>          invariant/decreases text put before the body of the k-th loop (textual order) of <fn>
  //@loop <fn> "<needle>" [optional] [nth=<k>]   same, for the unique (or k-th) loop whose header contains <needle>; with
                            `optional` a missing loop drops the block (logged as rewrite L) instead of losing the anchor
  //@after <fn> "<needle>"  proof text inserted after the unique statement line containing <needle>
  //@before <fn> "<needle>" proof text inserted before that line
  //@prefix <fn>            proof text inserted at the start of the body
  //@subst "<old>" "<new>" why="..."     unit-specific textual rewrite inside the extracted text, logged with its count
  //@ob fn=<verus fn name> real="<real function>" at=<file> clause="..." kind=exact|idealised|lemma|safety
                            registers a named obligation (a function Verus must verify)

Every rewrite applied to cut text is counted and reported (rewrites_applied). A missing anchor, a needle that does not
match exactly once, or a Verus error that is not a refutation (syntax/type error, rlimit) is UNDECIDED, never a violation.
"""
import json
import os
import re
import shlex
from concurrent.futures import ThreadPoolExecutor

import common
from common import VERIF, Undecided, log, match_brace, norm_ws, read, write
from common import run as sh

VDIR = os.path.join(VERIF, "verus")
DEFAULT_FEATURES = ["std", "alloc", "internal_enhanced_float", "dim_check", "debug_assertions", "devices"]

REFUTATION_MARKERS = (
    "postcondition not satisfied", "precondition not satisfied", "assertion failed", "invariant not satisfied",
    "possible arithmetic underflow/overflow", "possible division by zero", "index out of bounds",
    "decreases not satisfied", "loop invariant not preserved", "loop invariant not satisfied on entry",
    "unreachable", "recommendation not met", "possible bit shift underflow/overflow",
)
UNDECIDED_MARKERS = ("rlimit", "Resource limit", "timed out", "z3 crashed", "internal error", "ICE", "panicked at")


# ------------------------------------------------------------------------------------------------ template parsing
KV = re.compile(r'(\w+)=("([^"]*)"|\S+)')


def parse_kv(s):
    return {m.group(1): (m.group(3) if m.group(3) is not None else m.group(2)) for m in KV.finditer(s)}


def parse_template(path):
    def _flatten(pth, depth=0):
        out = []
        for raw in read(pth).splitlines():
            m = re.match(r"\s*//@include\s+(\S+)\s*$", raw)
            if m and depth < 5:
                out += _flatten(os.path.join(VDIR, m.group(1)), depth + 1)
            else:
                out.append(raw)
        return out

    lines = _flatten(path)
    unit = {"path": path, "name": os.path.basename(path)[:-4], "props": [], "tier": "quick",
            "features": list(DEFAULT_FEATURES), "segments": [], "obs": []}
    i = 0
    cur_extract = None
    cur_block = None  # (kind, args, lines)

    def close_block():
        nonlocal cur_block
        if cur_block:
            cur_extract["blocks"].append(cur_block)
            cur_block = None

    while i < len(lines):
        raw = lines[i]
        ln = raw.strip()
        if ln.startswith("//@"):
            body = ln[3:].strip()
            word = body.split(None, 1)[0] if body else ""
            rest = body[len(word):].strip()
            if word == "unit":
                unit["name"] = rest
            elif word == "props":
                unit["props"] = [p.strip() for p in rest.split(",") if p.strip()]
            elif word == "tier":
                unit["tier"] = rest
            elif word == "portfolio":
                unit["portfolio"] = rest
            elif word == "timeout":
                unit["timeout"] = int(rest)
            elif word == "verus_args":
                unit["verus_args"] = rest.split()
            elif word == "features":
                unit["features"] = [p.strip() for p in rest.split(",") if p.strip()]
            elif word == "include":
                unit["segments"].append(("text", read(os.path.join(VDIR, rest))))
            elif word == "broadcast_use":
                unit["segments"].append(("text", "//@@broadcast_use " + rest))
            elif word == "ob":
                unit["obs"].append(parse_kv(rest))
            elif word == "extract":
                if cur_extract:
                    raise Undecided("%s: nested //@extract at line %d" % (path, i + 1))
                cur_extract = {"args": parse_kv(rest), "blocks": [], "line": i + 1}
            elif word == "endextract":
                close_block()
                unit["segments"].append(("extract", cur_extract))
                cur_extract = None
            elif word in ("spec", "loop", "after", "before", "prefix", "subst", "attr"):
                if not cur_extract:
                    raise Undecided("%s: //@%s outside //@extract at line %d" % (path, word, i + 1))
                close_block()
                cur_block = {"kind": word, "rest": rest, "lines": []}
                if word == "subst":
                    close_block()
            else:
                raise Undecided("%s: unknown directive //@%s at line %d" % (path, word, i + 1))
        else:
            if cur_block is not None:
                cur_block["lines"].append(raw)
            elif cur_extract is not None:
                if ln:
                    raise Undecided("%s: stray text inside //@extract at line %d" % (path, i + 1))
            else:
                unit["segments"].append(("text", raw))
        i += 1
    if cur_extract:
        raise Undecided("%s: unterminated //@extract" % path)
    return unit


# ------------------------------------------------------------------------------------------------ cutting items
def _find_norm(text, needle, lo=0, hi=None):
    hi = len(text) if hi is None else hi
    toks = norm_ws(needle).split(" ")
    pat = r"\s+".join(re.escape(t) for t in toks)
    return [m.start() + lo for m in re.finditer(pat, text[lo:hi])]


def _line_start(text, idx):
    return text.rfind("\n", 0, idx) + 1


def _attr_start(text, idx):
    """Extend the start of an item backwards over its attribute and doc-comment lines."""
    s = _line_start(text, idx)
    while s > 0:
        p = _line_start(text, s - 1)
        prev = text[p:s].strip()
        if prev.startswith("#[") or prev.startswith("///") or prev.startswith("//!"):
            s = p
        elif prev.endswith(")]") and not prev.startswith("#["):
            # continuation of a multi-line attribute: walk back to its opening line
            q = p
            found = False
            while q > 0:
                q2 = _line_start(text, q - 1)
                t = text[q2:q].strip()
                if t.startswith("#["):
                    s = q2
                    found = True
                    break
                if not t or t.endswith(";") or t.endswith("}"):
                    break
                q = q2
            if not found:
                break
        else:
            break
    return s


def _item_end(text, idx):
    """End (exclusive) of the item starting at idx: matching brace of its first '{', or the first ';' at depth 0."""
    depth = 0
    i = idx
    while i < len(text):
        c = text[i]
        if c in "([":
            depth += 1
        elif c in ")]":
            depth -= 1
        elif c == ";" and depth == 0:
            return i + 1
        elif c == "{" and depth == 0:
            return match_brace(text, i) + 1
        i += 1
    raise Undecided("item has no end")


def cut_item(src, header, what):
    hits = [h for h in _find_norm(src, header) if src[_line_start(src, h):h].strip() == ""]
    if len(hits) != 1:
        raise Undecided("lost anchor: item %r matched %d times (%s)" % (header, len(hits), what))
    s = _attr_start(src, hits[0])
    e = _item_end(src, hits[0])
    return src[s:e], s


def find_impl(src, header, what):
    hits = [h for h in _find_norm(src, header) if src[_line_start(src, h):h].strip() == ""]
    # the header must be followed (modulo whitespace / where clause) by '{'
    hits = [h for h in hits if re.match(r"\s*(where[^{]*)?\{", src[h + len(_match_text(src, h, header)):])]
    if len(hits) != 1:
        raise Undecided("lost anchor: impl %r matched %d times (%s)" % (header, len(hits), what))
    h = hits[0]
    b = src.find("{", h + len(_match_text(src, h, header)))
    return h, b, match_brace(src, b)


def _match_text(src, start, needle):
    toks = norm_ws(needle).split(" ")
    pat = r"\s+".join(re.escape(t) for t in toks)
    return re.match(pat, src[start:]).group(0)


def _cfg_conditions(attrs):
    """The conditions of the #[cfg(..)] attributes in an attribute block (balanced parentheses)."""
    out = []
    for m in re.finditer(r"#\[cfg\(", attrs):
        i = m.end()
        depth = 1
        while i < len(attrs) and depth:
            depth += attrs[i] == "("
            depth -= attrs[i] == ")"
            i += 1
        out.append(attrs[m.end():i - 1])
    return out


def find_fn(src, lo, hi, name, what, feats=None):
    """Locate `fn name` directly inside src[lo:hi] (brace depth 1 of an impl, or anywhere for free fns)."""
    hits = [m.start() + lo for m in re.finditer(r"\bfn\s+%s\s*[<(]" % re.escape(name), src[lo:hi])]
    if len(hits) > 1 and feats is not None:
        # several definitions of one name that differ in their #[cfg(..)]: keep those the unit's configuration compiles
        def _live(k):
            attrs = src[_attr_start(src, k):k]
            return all(eval_cfg(c, feats) for c in _cfg_conditions(attrs))
        hits = [k for k in hits if _live(k)]
    if len(hits) != 1:
        raise Undecided("lost anchor: fn %s matched %d times (%s)" % (name, len(hits), what))
    k = hits[0]
    s = _attr_start(src, k)
    # body brace: first '{' at paren depth 0 after the fn keyword
    depth = 0
    i = k
    while i < hi:
        c = src[i]
        if c in "([":
            depth += 1
        elif c in ")]":
            depth -= 1
        elif c == "{" and depth == 0:
            break
        elif c == ";" and depth == 0:
            raise Undecided("fn %s has no body (%s)" % (name, what))
        i += 1
    e = match_brace(src, i)
    return s, i, e  # start (with attrs), body-open index, body-close index


# ------------------------------------------------------------------------------------------------ rewrites
class Rewrites:
    def __init__(self):
        self.counts = {}

    def hit(self, rid, n=1):
        if n:
            self.counts[rid] = self.counts.get(rid, 0) + n


def eval_cfg(expr, feats):
    expr = expr.strip()
    m = re.match(r"^(all|any|not)\s*\((.*)\)$", expr, re.S)
    if m:
        parts = _split_top(m.group(2))
        vals = [eval_cfg(p, feats) for p in parts if p.strip()]
        if m.group(1) == "all":
            return all(vals)
        if m.group(1) == "any":
            return any(vals)
        return not vals[0]
    m = re.match(r'^feature\s*=\s*"([^"]+)"$', expr)
    if m:
        f = m.group(1)
        if f in ("dim_check_release", "dim_check_debug"):
            return "dim_check" in feats
        return f in feats
    if expr == "debug_assertions":
        return "debug_assertions" in feats
    if expr == "test":
        return False
    raise Undecided("unsupported cfg expression %r" % expr)


def _split_top(s):
    out, depth, cur = [], 0, ""
    for c in s:
        if c == "(":
            depth += 1
        elif c == ")":
            depth -= 1
        if c == "," and depth == 0:
            out.append(cur)
            cur = ""
        else:
            cur += c
    if cur.strip():
        out.append(cur)
    return out


def _attr_close(text, i):
    """text[i:] starts with '#['; return index just past the matching ']'."""
    depth = 0
    j = i + 1
    while j < len(text):
        if text[j] == "[":
            depth += 1
        elif text[j] == "]":
            depth -= 1
            if depth == 0:
                return j + 1
        elif text[j] == '"':
            j = text.find('"', j + 1)
        j += 1
    raise Undecided("unterminated attribute")


def _element_end(text, i):
    """End (exclusive) of the syntactic element starting at text[i] that a #[cfg] attribute governs:
    through the matching brace of a '{' met at depth 0 (plus a directly following ',' or ';'), or through the first
    ',' or ';' at depth 0, or up to (not including) an unbalanced closing delimiter."""
    depth = 0
    j = i
    n = len(text)
    while j < n:
        c = text[j]
        if c == '"':
            j = text.find('"', j + 1) + 1
            continue
        if c in "([":
            depth += 1
        elif c in ")]":
            if depth == 0:
                return j
            depth -= 1
        elif c == "}":
            if depth == 0:
                return j
        elif c == "{":
            if depth == 0:
                e = match_brace(text, j) + 1
                # `if .. { } else { }` / `else if ..`: the element continues through the else branches
                while True:
                    me = re.match(r"\s*else\b", text[e:])
                    if not me:
                        break
                    k2 = text.find("{", e + me.end())
                    if k2 < 0:
                        break
                    e = match_brace(text, k2) + 1
                m = re.match(r"\s*[,;]", text[e:])
                # a block expression used as a value may be followed by more expression text; rustfmt never
                # writes that after a cfg'd block in this crate, so the block (plus separator) is the element
                return e + (m.end() if m else 0)
        elif c in ",;" and depth == 0:
            return j + 1
        j += 1
    return n


def resolve_cfg(text, feats, rw):
    """R4: resolve #[cfg(..)] and #[cfg_attr(.., attr)] for the configuration `feats`."""
    out = text
    pos = 0
    while True:
        m = re.search(r"#\[cfg(_attr)?\s*\(", out[pos:])
        if not m:
            break
        a = pos + m.start()
        close = _attr_close(out, a)
        inner = out[a + 2:close - 1]  # cfg(...) or cfg_attr(...)
        if m.group(1):
            args = _split_top(inner[inner.index("(") + 1:inner.rindex(")")])
            cond = args[0]
            attrs = ",".join(args[1:]).strip()
            if eval_cfg(cond, feats):
                out = out[:a] + "#[" + attrs + "]" + out[close:]
            else:
                out = out[:a] + out[close:]
            rw.hit("R4 cfg_attr resolved")
            pos = a
            continue
        cond = inner[inner.index("(") + 1:inner.rindex(")")]
        # element governed by the attribute (skipping further attributes / doc comments in between)
        k = close
        while True:
            mm = re.match(r"\s*(#\[|///[^\n]*\n)", out[k:])
            if not mm:
                break
            if mm.group(1).startswith("#["):
                k = _attr_close(out, k + mm.start(1))
            else:
                k = k + mm.end()
        ws = re.match(r"\s*", out[k:]).end()
        e = _element_end(out, k + ws)
        if eval_cfg(cond, feats):
            out = out[:a] + out[close:]
            rw.hit("R4 cfg enabled: attribute stripped")
            pos = a
        else:
            # drop attribute and element, and the whitespace before the attribute on its line
            ls = _line_start(out, a)
            start = ls if out[ls:a].strip() == "" else a
            out = out[:start] + out[e:].lstrip("\n") if out[ls:a].strip() == "" else out[:a] + out[e:]
            rw.hit("R4 cfg disabled: element dropped")
            pos = start
    return out


def generic_rewrites(text, rw, unit):
    # R7: doc comments, #[inline], #[allow], #[must_use] carry no run-time meaning
    n0 = len(re.findall(r"^[ \t]*///[^\n]*\n", text, re.M))
    text = re.sub(r"^[ \t]*///[^\n]*\n", "", text, flags=re.M)
    rw.hit("R7 doc comment lines dropped", n0)
    for attr in ("inline", r"allow\([^)]*\)", "must_use", r"repr\(transparent\)", "non_exhaustive", r"warn\([^)]*\)"):
        n = len(re.findall(r"^[ \t]*#\[%s\][ \t]*\n" % attr, text, re.M))
        text = re.sub(r"^[ \t]*#\[%s\][ \t]*\n" % attr, "", text, flags=re.M)
        rw.hit("R7 #[%s] dropped" % attr.split("\\")[0], n)
    # plain // comments are kept (they are comments)
    # R5: ?Sized bounds
    n = len(re.findall(r"\s*\+\s*\?Sized", text))
    text = re.sub(r"\s*\+\s*\?Sized", "", text)
    rw.hit("R5 '+ ?Sized' dropped", n)
    # R3: debug_assert_eq!(a, b) -> vassert(a == b)
    def _dae(m):
        a, b = _split_top(m.group(1))[:2]
        return "vassert(%s == %s)" % (a.strip(), b.strip())
    n = len(re.findall(r"debug_assert_eq!\((.*?)\);", text, re.S))
    text = re.sub(r"debug_assert_eq!\((.*?)\)(?=;)", _dae, text, flags=re.S)
    rw.hit("R3 debug_assert_eq! -> vassert", n)
    # assert!(cond) / assert!(cond, msg) -> vassert(cond)   (keeps the panic as a proof obligation)
    def _as(m):
        parts = _split_top(m.group(1))
        return "vassert(%s)" % parts[0].strip()
    n = len(re.findall(r"(?<![\w_])assert!\(", text))
    text = _replace_macro_calls(text, "assert!", lambda inner: "vassert(%s)" % _split_top(inner)[0].strip())
    rw.hit("R3 assert! -> vassert", n)
    # R9: expect("..") -> unwrap()  (vstd: requires is_some / is_ok -- the panic stays an obligation)
    n = len(re.findall(r"\.expect\(\s*\"", text))
    text = _replace_method_calls(text, ".expect(", ".unwrap()")
    rw.hit("R9 expect(msg) -> unwrap()", n)
    # R16: associated float constants (Verus: "not supported") -> f32_const(k), a named deterministic value
    for k, cname in enumerate(("EPSILON", "MAX", "MIN", "MIN_POSITIVE", "INFINITY", "NEG_INFINITY", "NAN")):
        pat = r"\b(?:core::|std::)?f32::%s\b" % cname
        n = len(re.findall(pat, text))
        if n:
            text = re.sub(pat, "f32_const(%du8)" % k, text)
            rw.hit("R16 f32::%s -> f32_const(%d)" % (cname, k), n)
    # unimplemented!() / panic!(..) -> vpanic()  (requires false: must be unreachable)
    for mac in ("unimplemented!", "panic!", "unreachable!"):
        n = len(re.findall(r"(?<![\w_])%s\(" % re.escape(mac), text))
        text = _replace_macro_calls(text, mac, lambda inner: "vpanic()")
        rw.hit("R9 %s -> vpanic() (requires false)" % mac, n)
    return text


def _replace_macro_calls(text, mac, fn):
    out = ""
    i = 0
    pat = re.compile(r"(?<![\w_])%s\(" % re.escape(mac))
    while True:
        m = pat.search(text, i)
        if not m:
            return out + text[i:]
        op = m.end() - 1
        cl = _match_paren(text, op)
        out += text[i:m.start()] + fn(text[op + 1:cl])
        i = cl + 1


def _replace_method_calls(text, head, repl):
    out = ""
    i = 0
    while True:
        k = text.find(head, i)
        if k < 0:
            return out + text[i:]
        op = k + len(head) - 1
        cl = _match_paren(text, op)
        out += text[i:k] + repl
        i = cl + 1


def _match_paren(text, i):
    assert text[i] == "("
    depth = 0
    j = i
    while j < len(text):
        c = text[j]
        if c == '"':
            j += 1
            while text[j] != '"':
                if text[j] == "\\":
                    j += 1
                j += 1
        elif c == "(":
            depth += 1
        elif c == ")":
            depth -= 1
            if depth == 0:
                return j
        j += 1
    raise Undecided("unbalanced parentheses")


def compound_assign_rewrite(body, rw):
    """R2: `place op= expr;` -> `place = place op (expr);` (definition of compound assignment for the
    primitive and Copy types it is applied to here; user impls are `*self = *self op rhs`)."""
    def _r(m):
        rw.hit("R2 compound assignment expanded")
        ind, place, op, expr = m.group(1), m.group(2), m.group(3), m.group(4)
        return "%s%s = %s %s (%s);" % (ind, place, place, op, expr)
    return re.sub(r"(?m)^([ \t]*)([A-Za-z_][\w\.\[\]\*]*)\s*([-+*/])=\s*([^;=][^;]*);", _r, body)


def array2_rewrite(body, rw):
    """R1: `let [a, b] = match .. { .. [x, y] .. };` -> tuple pattern and tuple values."""
    m = re.search(r"let \[(\w+), (\w+)\] = ", body)
    while m:
        rw.hit("R1 array-of-2 pattern -> tuple")
        start = m.start()
        end = _element_end(body, m.end())
        stmt = body[start:end]
        stmt = stmt.replace("let [%s, %s] = " % (m.group(1), m.group(2)), "let (%s, %s) = " % (m.group(1), m.group(2)), 1)
        stmt = re.sub(r"(?m)^([ \t]*)\[([^\[\]\n]*),\s*([^\[\]\n]*)\]([ \t]*)$", r"\1(\2, \3)\4", stmt)
        body = body[:start] + stmt + body[end:]
        m = re.search(r"let \[(\w+), (\w+)\] = ", body)
    return body


# ------------------------------------------------------------------------------------------------ assembling
def loops_in(body):
    """Offsets (in body) of the '{' opening each loop body, in textual order."""
    outs = []
    for m in re.finditer(r"(?m)^[ \t]*(?:'\w+:\s*)?(while|for|loop)\b", body):
        i = m.end()
        depth = 0
        while i < len(body):
            c = body[i]
            if c in "([":
                depth += 1
            elif c in ")]":
                depth -= 1
            elif c == "{" and depth == 0:
                outs.append(i)
                break
            i += 1
    return outs


def loop_headers(body):
    """[(offset of the loop keyword's line start, offset of the '{' opening the loop body)] in textual order."""
    outs = []
    for m in re.finditer(r"(?m)^[ \t]*(?:'\w+:\s*)?(while|for|loop)\b", body):
        i = m.end()
        depth = 0
        while i < len(body):
            c = body[i]
            if c in "([":
                depth += 1
            elif c in ")]":
                depth -= 1
            elif c == "{" and depth == 0:
                outs.append((m.start(), i))
                break
            i += 1
    return outs


def apply_blocks(sig, body, fname, blocks, rw, what, probe):
    """sig: text up to (not including) the body '{'; body: '{...}'."""
    spec = [b for b in blocks if b["kind"] == "spec" and b["rest"].split()[0] == fname]
    has_spec = bool(spec)
    if has_spec:
        # name the return value
        m = re.search(r"->\s*([^{]+?)\s*$", sig, re.S)
        if m and not m.group(1).startswith("("):
            sig = sig[:m.start()] + "-> (r: %s)" % m.group(1).strip()
            rw.hit("R11 return value named r")
        sig = sig.rstrip() + "\n" + "\n".join(spec[0]["lines"]).rstrip() + "\n"
    for b in blocks:
        if b["kind"] == "attr" and b["rest"].split()[0] == fname:
            # verifier attributes (e.g. #[verifier::nonlinear]) go in front of the signature
            ind = re.match(r"\s*", sig).group(0)
            k = len(sig) - len(sig.lstrip())
            sig = sig[:k] + "\n".join(l.strip() for l in b["lines"] if l.strip()) + "\n" + ind.split("\n")[-1] + sig[k:]
    inserts = []  # (offset in body, text)
    lp = None
    for b in blocks:
        parts = b["rest"].split(None, 1)
        if not parts or parts[0] != fname:
            continue
        txt = "\n".join(b["lines"]) + "\n"
        if b["kind"] == "loop":
            if lp is None:
                lp = loops_in(body)
            mq = re.match(r'\s*"(.*)"\s*(optional)?\s*(?:nth=(\d+))?\s*$', parts[1])
            if mq:
                # needle form: //@loop <fn> "<text in the loop header>" [optional] -- the loop whose header (keyword up to
                # the body brace) contains the needle; robust against loops being added/removed before it.  `optional`:
                # if no loop header contains the needle the block is dropped (logged) and the function is verified
                # without that invariant -- invariants are proof hints only, so this can turn proved into refuted, never
                # the reverse.
                heads = [(h, br) for h, br in loop_headers(body) if mq.group(1) in body[h:br]]
                if mq.group(3) is not None:
                    # nth=<k>: the k-th (0-based) of the loops whose header contains the needle
                    heads = heads[int(mq.group(3)):int(mq.group(3)) + 1]
                if len(heads) == 1:
                    inserts.append((heads[0][1], "\n" + txt))
                elif not heads and mq.group(2):
                    rw.hit("L optional loop anchor %r absent in fn %s: invariant block not inserted" % (mq.group(1), fname))
                else:
                    raise Undecided("lost anchor: loop header needle %r matched %d loops in fn %s (%s)" % (mq.group(1), len(heads), fname, what))
                continue
            k = int(parts[1])
            if k >= len(lp):
                raise Undecided("lost anchor: loop %d of fn %s (%s has %d loops)" % (k, fname, what, len(lp)))
            inserts.append((lp[k], "\n" + txt))
        elif b["kind"] in ("after", "before"):
            mm = re.match(r'\s*"(.*)"\s*(all)?\s*$', parts[1])
            needle, every = mm.group(1), bool(mm.group(2))
            hits = [m.start() for m in re.finditer(re.escape(needle), body)]
            # `all`: proof-only text (ghost snapshots, asserts) is placed at EVERY occurrence of the statement, so a change
            # that duplicates or moves the statement keeps the unit decidable (a hint that does not hold at a new site is a
            # failed proof step of that site)
            if len(hits) != 1 and not (every and len(hits) >= 1):
                raise Undecided("lost anchor: needle %r matched %d times in fn %s (%s)" % (needle, len(hits), fname, what))
            for h0 in hits:
                if b["kind"] == "before":
                    inserts.append((_line_start(body, h0), txt))
                else:
                    # end of the statement containing the needle
                    e = _element_end(body, h0)
                    nl = body.find("\n", e - 1)
                    inserts.append((nl + 1 if nl >= 0 else e, txt))
            if len(hits) > 1:
                rw.hit("H hint for %r placed at %d sites" % (needle, len(hits)))
        elif b["kind"] == "prefix":
            inserts.append((1, "\n" + txt))
    if probe and has_spec:
        inserts.append((1, "\n        assert(false); // vacuity probe: must FAIL, else the precondition is contradictory\n"
                           "        proof { assume(false); } // (probe variant only) the rest of the body is not re-checked here\n"))
    for off, txt in sorted(inserts, key=lambda x: -x[0]):
        body = body[:off] + txt + body[off:]
    return sig, body, has_spec


def f32_field_typing(struct_txt, rw, tygroups):
    """R14: Verus 0.2026.09 gives direct `f32` fields of a struct no typing invariant (the 32-bit range fact its own
    float axioms are guarded by), so facts about f32 operators cannot fire on field reads.  For each such field emit
    `field == fld_<S>_<f>(s)` with an uninterpreted fld function, whose result typing supplies exactly that fact."""
    m = re.search(r"\bstruct\s+(\w+)\s*(<)?", struct_txt)
    name = m.group(1)
    gen_decl, gen_args = "", ""
    if m.group(2):
        i = m.end() - 1
        depth = 0
        j = i
        while j < len(struct_txt):
            if struct_txt[j] == "<":
                depth += 1
            elif struct_txt[j] == ">" and struct_txt[j - 1] != "-":
                depth -= 1
                if depth == 0:
                    break
            j += 1
        gen_decl = struct_txt[i:j + 1]
        args = []
        for part in _split_top_angle(struct_txt[i + 1:j]):
            part = part.strip()
            part = re.sub(r"^const\s+", "", part)
            args.append(re.match(r"('?\w+)", part).group(1))
        gen_args = "<" + ", ".join(args) + ">"
    fields = re.findall(r"(?m)^[ \t]+pub\s+(\w+)\s*:\s*f32\s*,", struct_txt)
    if not fields:
        return ""
    out = ["pub mod ty_%s {" % name, "    use vstd::prelude::*;", "    use super::*;"]
    for f in fields:
        out.append("    pub uninterp spec fn fld_%s%s(s: %s%s) -> f32;" % (f, gen_decl, name, gen_args))
        out.append("    pub broadcast axiom fn ax_%s%s(s: %s%s) ensures #[trigger] s.%s == fld_%s(s);" % (f, gen_decl, name, gen_args, f, f))
        rw.hit("R14 typing fact emitted for an f32 field")
    out.append("    pub broadcast group tys { %s }" % ", ".join("ax_" + f for f in fields))
    out.append("}")
    tygroups.append("ty_%s::tys" % name)
    return "\n".join(out) + "\n"


def _split_top_angle(s):
    out, depth, cur = [], 0, ""
    for k, c in enumerate(s):
        if c in "<(":
            depth += 1
        elif c in ">)" and not (c == ">" and k > 0 and s[k - 1] == "-"):
            depth -= 1
        if c == "," and depth == 0:
            out.append(cur)
            cur = ""
        else:
            cur += c
    if cur.strip():
        out.append(cur)
    return out


def restrict_to_module(src, header, what):
    """Blank out (spaces, newlines kept) everything outside the braces of the inline module `header` (e.g. "mod foo")."""
    hits = [h for h in _find_norm(src, header) if src[_line_start(src, h):h].strip() in ("", "pub", "pub(crate)")]
    hits = [h for h in hits if re.match(r"\s*\{", src[h + len(_match_text(src, h, header)):])]
    if len(hits) != 1:
        raise Undecided("lost anchor: module %r matched %d times (%s)" % (header, len(hits), what))
    b = src.find("{", hits[0])
    e = match_brace(src, b)
    return re.sub(r"[^\n]", " ", src[:b + 1]) + src[b + 1:e] + re.sub(r"[^\n]", " ", src[e:])


def do_extract(ex, feats, rw, probe, tygroups):
    a = ex["args"]
    src = read(os.path.join(common.REPO, a["file"]))
    what = "%s line %d" % (a["file"], ex["line"])
    if "within" in a:
        # optional within="mod name": anchors are searched only in the body of that inline module (several inline
        # modules of one file may define the same item names); text outside is blanked, newlines kept for line numbers
        src = restrict_to_module(src, a["within"], what)
    substs = []
    for b in ex["blocks"]:
        if b["kind"] == "subst":
            m = re.match(r'\s*"((?:[^"\\]|\\.)*)"\s+"((?:[^"\\]|\\.)*)"\s*(?:why="([^"]*)")?', b["rest"])
            if not m:
                raise Undecided("bad //@subst at %s" % what)
            substs.append((m.group(1).encode().decode("unicode_escape"), m.group(2).encode().decode("unicode_escape"), m.group(3) or ""))

    def post(text):
        text = resolve_cfg(text, feats, rw)
        text = generic_rewrites(text, rw, None)
        for old, new, why in substs:
            n = text.count(old)
            if n:
                text = text.replace(old, new)
                rw.hit("S %r -> %r (%s)" % (old, new, why), n)
        return text

    if "item" in a:
        txt, _ = cut_item(src, a["item"], what)
        txt = post(txt)
        mconst = re.search(r"pub const (\w+): Unit = Unit::new\((-?\d+), (-?\d+)\);", txt)
        if mconst:
            # R15: Verus forbids calling an exec fn in a const initialiser; Unit::new(m, s) is replaced by the struct
            # literal it constructs (Unit::new's own contract, proved in the same unit, says exactly that)
            txt = txt.replace(mconst.group(0), "pub const %s: Unit = Unit { millimeter_exp: %s, second_exp: %s };" % mconst.groups())
            rw.hit("R15 const initialiser Unit::new(m, s) -> struct literal")
        if re.search(r"\bstruct\s+\w+[^;{]*\{", txt):
            # R13: private fields made `pub` (visibility only; lets specs of pub fns mention them in a one-module file)
            def _pubf(m):
                rw.hit("R13 private field made pub")
                return "%spub %s" % (m.group(1), m.group(2))
            txt = re.sub(r"(?m)^([ \t]+)(?!pub\b)([a-z_][a-z0-9_]*\s*:)", _pubf, txt)
            txt += "\n" + f32_field_typing(txt, rw, tygroups)
        for old, new, why in substs:
            pass
        return txt + "\n", []
    names = [n for n in a.get("fns", "").split(",") if n]
    renames = dict(p.split(":") for p in a.get("rename", "").split(",") if p)
    out = ""
    extracted = []
    if "impl" in a:
        h, b, e = find_impl(src, a["impl"], what)
        header = src[h:b]
        if a.get("as") == "inherent":
            m = re.match(r"(impl\s*(?:<.*?>)?\s*)(.*?)\s+for\s+(.*)$", norm_ws(header))
            if not m:
                raise Undecided("cannot turn %r into an inherent impl (%s)" % (header, what))
            # generic parameter list may contain nested <>; split at the top-level '>' instead
            gp, rest = _split_generics(norm_ws(header))
            tr, ty = rest.split(" for ", 1)
            header = "%s %s " % (gp, ty.strip())
            rw.hit("R10 trait impl emitted as inherent impl (static dispatch to the same body)")
        header = post(header)
        out += header.rstrip() + " {\n"
        lo, hi = b + 1, e
        # associated types / consts of the impl are part of it (kept verbatim) unless emitted as inherent
        if a.get("as") != "inherent":
            for m in re.finditer(r"(?m)^[ \t]*(type\s+\w+[^;{]*;|const\s+\w+\s*:[^;{]*;)", src[lo:hi]):
                if _depth_at(src, lo, lo + m.start()) == 0:
                    out += "    " + m.group(1).strip() + "\n"
    else:
        lo, hi = 0, len(src)
        names = names or [re.search(r"fn\s+(\w+)", a["modfn"]).group(1)]
    for name in names:
        s, bo, bc = find_fn(src, lo, hi, name, what, feats)
        sig = src[s:bo]
        body = src[bo:bc + 1]
        sig = post(sig)
        body = post(body)
        if a.get("asserts") == "check":
            # the property allows this function to panic on its assert!s ("either panics or ..."): an assert! is then a
            # run-time check after which the condition holds, not an obligation (vcheck: external_body, ensures b)
            n = body.count("vassert(")
            body = body.replace("vassert(", "vcheck(")
            rw.hit("R3b assert! -> vcheck (panic permitted by the property; condition holds afterwards)", n)
        body = array2_rewrite(body, rw)
        if a.get("compound", "expand") == "expand":
            body = compound_assign_rewrite(body, rw)
        new = renames.get(name, name)
        if new != name:
            sig = re.sub(r"\bfn\s+%s\b" % re.escape(name), "fn %s" % new, sig)
            rw.hit("R12 fn renamed %s -> %s (two trait impls share a method name)" % (name, new))
        sig, body, has_spec = apply_blocks(sig, body, name, ex["blocks"], rw, what, probe)
        out += sig + body + "\n"
        extracted.append({"fn": (impl_qual(header) + "::" if "impl" in a else "") + new, "real": "%s::%s" % (norm_ws(a.get("impl", a.get("modfn", ""))), name), "file": a["file"],
                          "line": src.count("\n", 0, s) + 1, "has_spec": has_spec})
    if "impl" in a:
        out += "}\n"
    return out, extracted


def impl_qual(header):
    """`impl<..> Trait<X> for Type<..>` -> `Type::Trait<X>`;  `impl<..> Type<..>` -> `Type`."""
    h = norm_ws(header).rstrip("{").strip()
    _gp, rest = _split_generics(h)
    rest = re.sub(r"\bwhere\b.*$", "", rest).strip()
    if " for " in rest:
        tr, ty = rest.split(" for ", 1)
        return "%s::%s" % (re.match(r"[\w:]+", ty.strip()).group(0), tr.strip().replace(" ", ""))
    return re.match(r"[\w:]+", rest).group(0)


def _depth_at(src, lo, idx):
    d = 0
    i = lo
    while i < idx:
        c = src[i]
        if c == "{":
            d += 1
        elif c == "}":
            d -= 1
        i += 1
    return d


def _split_generics(header):
    assert header.startswith("impl")
    i = header.index("impl") + 4
    while header[i] == " ":
        i += 1
    if header[i] != "<":
        return "impl", header[i:]
    depth = 0
    j = i
    while j < len(header):
        if header[j] == "<":
            depth += 1
        elif header[j] == ">" and header[j - 1] != "-":
            depth -= 1
            if depth == 0:
                break
        j += 1
    return header[:j + 1], header[j + 1:].strip()


def build_unit(unit, probe=False):
    rw = Rewrites()
    feats = set(unit["features"])
    parts = []
    extracted = []
    tygroups = []
    for kind, seg in unit["segments"]:
        if kind == "text":
            parts.append(seg)
        else:
            txt, ex = do_extract(seg, feats, rw, probe, tygroups)
            parts.append(txt)
            extracted += ex
    text = "\n".join(parts) + "\n"
    # the single module-level `broadcast use`: groups named by the template plus the generated typing groups
    m = re.search(r"(?m)^//@@broadcast_use\s+(.*)$", text)
    if m:
        groups = [g.strip() for g in m.group(1).split(",") if g.strip()] + tygroups
        text = text[:m.start()] + "broadcast use {%s};" % ", ".join(groups) + text[m.end():]
    return text, rw.counts, extracted


# ------------------------------------------------------------------------------------------------ running verus
def obligations(prop, tier):
    obs = []
    if not os.path.isdir(VDIR):
        return obs
    for f in sorted(os.listdir(VDIR)):
        if f.endswith(".vrs"):
            u = parse_template(os.path.join(VDIR, f))
            if prop in u["props"] and (tier == "thorough" or u["tier"] == "quick"):
                obs.append({"engine": "verus", "unit": u["name"], "template": u})
    return obs


def fn_spans(text):
    """[(start_line, end_line, name)] of every fn in the generated file (1-based lines)."""
    spans = []
    for m in re.finditer(r"(?m)^[ \t]*(?:pub(?:\([a-z]+\))?\s+)?(?:open\s+|closed\s+|broadcast\s+|const\s+|uninterp\s+)*(?:spec\s+|proof\s+|exec\s+|axiom\s+)?(?:const\s+)?fn\s+(\w+)", text):
        k = m.end()
        # find body or ';'
        depth = 0
        i = k
        end = None
        while i < len(text):
            c = text[i]
            if c in "([":
                depth += 1
            elif c in ")]":
                depth -= 1
            elif c == ";" and depth == 0:
                end = i
                break
            elif c == "{" and depth == 0:
                try:
                    end = match_brace(text, i)
                except Undecided:
                    end = i
                break
            i += 1
        if end is None:
            continue
        spans.append((text.count("\n", 0, m.start()) + 1, text.count("\n", 0, end) + 1, m.group(1)))
    # impl blocks, to qualify method names
    impls = []
    for m in re.finditer(r"(?m)^[ \t]*impl\b[^;{]*\{", text):
        b = m.end() - 1
        try:
            e = match_brace(text, b)
        except Undecided:
            continue
        try:
            q = impl_qual(text[m.start():b])
        except Exception:
            continue
        impls.append((text.count("\n", 0, m.start()) + 1, text.count("\n", 0, e) + 1, q))
    out = []
    for s0, e0, n in spans:
        best = None
        for si, ei, q in impls:
            if si <= s0 and e0 <= ei and (best is None or si >= best[0]):
                best = (si, ei, q)
        out.append((s0, e0, (best[2] + "::" + n) if best else n))
    return out


def parse_verus_output(out, path, text):
    """Returns (verified, errors, findings[{kind, line, fn, msg}], hard_errors[str])."""
    spans = fn_spans(text)

    def fn_at(line):
        # Verus reports locations inside a function's spec clauses or body: the function is the one whose header
        # is the last `fn` header at or before that line
        best = None
        for s0, _e0, n in spans:
            if s0 <= line and (best is None or s0 >= best[0]):
                best = (s0, n)
        return best[1] if best else None

    m = re.search(r"verification results::\s*(\d+) verified,\s*(\d+) errors", out)
    verified = int(m.group(1)) if m else None
    errors = int(m.group(2)) if m else None
    findings, hard = [], []
    blocks = re.split(r"\n(?=error)", out)
    base = os.path.basename(path)
    for b in blocks:
        if not b.startswith("error"):
            continue
        head = b.splitlines()[0]
        if head.startswith("error: aborting") or "previous error" in head:
            continue
        locs = [(int(x)) for x in re.findall(r"(?:-->|:::) %s:(\d+):\d+" % re.escape(base), b)]
        # the function in which the failure was found is reported by the location *inside a body* when there is one
        # ("at the end of the function body" / failing call site); otherwise the first location
        msg = head[len("error"):].lstrip(": ").strip()
        kind = None
        for mk in REFUTATION_MARKERS:
            if mk in msg:
                kind = mk
                break
        if kind is None:
            hard.append(b[:1500])
            continue
        fns = [fn_at(l) for l in locs]
        fns = [f for f in fns if f]
        findings.append({"kind": kind, "msg": msg, "lines": locs, "fn": fns[0] if fns else None,
                         "text": b[:2500]})
    # the --time statistics after "verus-build-info" mention "rlimit" as a column name: scan the diagnostics only
    diag = out.split("verus-build-info")[0]
    for mk in UNDECIDED_MARKERS:
        if mk in diag and not findings:
            hard.append("marker %r in verus output" % mk)
    return verified, errors, findings, hard


SOLVER_CONFIGS = {
    "default": [],
    # Z3's nlsat can run for hours on a *failing* nonlinear goal; without it the incremental NL lemmas
    # (Groebner/Horner/tangents) fail fast.  Neither configuration dominates, so units with #[verifier::nonlinear]
    # functions (//@portfolio nl) are run under both: a function is discharged if either proves it, refuted if a
    # configuration that finished reports an error for it and none proves it within the wall-clock limit.
    "nl_no_nra": ["--smt-option", "smt.arith.nl.nra=false"],
    # Z3's nonlinear real arithmetic is unstable: the same true goal can be proved in a second under one random seed and
    # run for minutes under another.  NL units therefore also run under two more seeds; any configuration proving a
    # function discharges it.
    "seed1": ["--smt-option", "smt.random_seed=1"],
    "seed2": ["--smt-option", "smt.random_seed=2"],
}


def _verus_once(u, scratch, fname, text, rlimit, cfg, wall, cancel=None):
    import subprocess
    import threading
    import time as _t
    cmd = ["verus", fname, "--rlimit", str(rlimit), "--time", "--multiple-errors", "50"] + SOLVER_CONFIGS[cfg] + u.get("verus_args", [])
    t0 = _t.time()
    outp = os.path.join(scratch, fname + "." + cfg + ".out")
    with open(outp, "w") as fo:
        p = subprocess.Popen(cmd, cwd=scratch, env=common.env(), stdout=fo, stderr=subprocess.STDOUT, start_new_session=True)
        status = "done"
        while p.poll() is None:
            if _t.time() - t0 > wall:
                status = "timeout"
            elif cancel is not None and cancel.is_set():
                status = "cancelled"
            if status != "done":
                try:
                    os.killpg(p.pid, 9)
                except Exception:
                    p.kill()
                p.wait()
                break
            _t.sleep(0.1)
    out = read(outp)
    secs = _t.time() - t0
    r = {"config": cfg, "rc": p.returncode, "seconds": round(secs, 2), "cmd": " ".join(shlex.quote(c) for c in cmd), "out_tail": out[-3000:],
         "lines": text.count("\n"), "timed_out": status != "done", "status": status}
    if status != "done":
        r.update({"verified": None, "errors": None, "findings": [], "hard": []})
        return r
    verified, errors, findings, hard = parse_verus_output(out, os.path.join(scratch, fname), text)
    r.update({"verified": verified, "errors": errors, "findings": findings, "hard": hard})
    real = [f for f in findings if f["fn"] != "verif_vacuity_probe"]
    if cancel is not None and not real and not hard and verified is not None:
        cancel.set()  # this configuration proved everything: the others need not finish
    return r


def run_unit(u, scratch, rlimit, wall):
    res = {"unit": u["name"]}
    nl = u.get("portfolio") == "nl"
    text, rwc, extracted = build_unit(u, probe=False)
    res.update({"rewrites": rwc, "extracted": extracted, "text": text})
    fname = "%s.rs" % u["name"]
    write(os.path.join(scratch, fname), text)
    ptext, _rw, _ex = build_unit(u, probe=True)
    pname = "%s_probe.rs" % u["name"]
    write(os.path.join(scratch, pname), ptext)
    jobs = [(fname, text, c) for c in (["default", "seed1", "seed2", "nl_no_nra"] if nl else ["default"])]
    jobs.append((pname, ptext, "nl_no_nra" if nl else "default"))
    import threading
    cancel = threading.Event() if nl else None
    with ThreadPoolExecutor(max_workers=len(jobs)) as ex:
        outs = list(ex.map(lambda j: _verus_once(u, scratch, j[0], j[1], rlimit, j[2], wall, cancel if j[0] == fname else None), jobs))
    res["runs"] = outs[:-1]
    res["probe"] = outs[-1]
    # combine the portfolio
    done = [r for r in res["runs"] if not r["timed_out"] and r["verified"] is not None and not r["hard"]]
    hard = [h for r in res["runs"] for h in r["hard"]]
    all_finished = len(done) == len(res["runs"])
    main = {"cmd": " ;; ".join(r["cmd"] for r in res["runs"]), "seconds": max(r["seconds"] for r in res["runs"]),
            "lines": text.count("\n"), "hard": hard if not done else [], "configs": [
                {"config": r["config"], "seconds": r["seconds"], "status": r.get("status"), "verified": r["verified"], "errors": r["errors"]}
                for r in res["runs"]],
            "out_tail": "\n".join(r["out_tail"][-1200:] for r in res["runs"]), "undecided_fns": []}
    if not done:
        main.update({"verified": None, "errors": None, "findings": []})
    else:
        failing_sets = [set(f["fn"] for f in r["findings"]) for r in done]
        still = set.intersection(*failing_sets)  # functions no finished configuration could prove
        best = min(done, key=lambda r: r["errors"])
        cancelled = any(r.get("status") == "cancelled" for r in res["runs"])
        if still and not all_finished and not cancelled:
            # some configuration timed out: it might have proved these; they are undecided, not refuted
            main["undecided_fns"] = sorted(f for f in still if f != "verif_vacuity_probe")
            still = {f for f in still if f == "verif_vacuity_probe"}
        fnd = []
        for r in done:
            for f in r["findings"]:
                if f["fn"] in still and not any(g["fn"] == f["fn"] and g["msg"] == f["msg"] for g in fnd):
                    fnd.append(f)
        main.update({"verified": best["verified"], "errors": len(still), "findings": fnd})
    res["main"] = main
    return res


def run(prop, tier, obs, jobs, replay_dir, known_sites):
    scratch = common.new_scratch("v")
    rlimit = 60 if tier == "quick" else 200
    wall = 150 if tier == "quick" else 900
    units = [o["template"] for o in obs]
    with ThreadPoolExecutor(max_workers=max(1, min(jobs // 3, len(units)))) as ex:
        results = list(ex.map(lambda u: run_unit(u, scratch, rlimit, u.get("timeout", wall)), units))
    records, violations, cmds = [], [], []
    info = {"units": [], "rewrites_applied": {}, "trusted_base": [], "assumptions": [], "undecided": []}
    # status of every function of every unit, for the cross-unit arbiter rule: an `exact` obligation (expression tree in
    # the code's own association) that fails is forgiven iff its idealised twin, which states the same clause over the
    # reals, is PROVED on the same tree (a twin that fails or times out forgives nothing)
    unit_status = {}
    for u, res in zip(units, results):
        m = res["main"]
        if m["hard"] or m["verified"] is None:
            unit_status[u["name"]] = None
        else:
            unit_status[u["name"]] = {f["fn"] for f in m["findings"]} | set(m.get("undecided_fns", []))

    # arbiter -> the exact obligations it arbitrates
    clients = {}
    for u in units:
        for ob in u["obs"]:
            if ob.get("arbiter"):
                arb = ob["arbiter"] if "::" in ob["arbiter"] and ob["arbiter"].split("::")[0] in unit_status else "%s::%s" % (u["name"], ob["arbiter"])
                clients.setdefault(arb, []).append((u["name"], ob["fn"]))

    def clients_all_pass(unit_name, fn):
        cl = clients.get("%s::%s" % (unit_name, fn))
        if not cl:
            return False
        return all(unit_status.get(cu) is not None and cf not in unit_status[cu] for cu, cf in cl)

    def arbiter_ok(arb, this_unit, names, failing, unit_status):
        if "::" in arb and arb.split("::")[0] in unit_status:
            un, fn = arb.split("::", 1)
            st = unit_status[un]
            return st is not None and fn not in st
        return arb in names and arb not in failing

    # units that exist only as arbiters may be undecided (time out) on a changed tree without making the property undecided,
    # provided the obligations they arbitrate are themselves decided
    order = sorted(zip(units, results), key=lambda ur: unit_status[ur[0]["name"]] is None)
    for u, res in order:
        main, probe = res["main"], res["probe"]
        cmds.append(main["cmd"])
        if (main["hard"] or main["verified"] is None) and any(
                (v["rec"].get("arbiter") or "").split("::")[0] == u["name"] for v in violations):
            # an arbiter unit that could not be decided on this tree while an obligation it arbitrates is refuted:
            # the refutation stands (nothing re-proved the clause); the unit's own obligations are reported undecided
            for ob in u["obs"]:
                records.append({"name": "%s::%s" % (u["name"], ob["fn"]), "engine": "verus", "unit": u["name"], "status": "undecided",
                                "function": ob.get("real"), "clause": ob.get("clause"), "kind": ob.get("kind"),
                                "note": "solver timeout / not decidable on this tree"})
            continue
        if main["hard"] or main["verified"] is None:
            info["undecided"].append("verus unit %s: not a refutation (syntax/type error, rlimit, timeout or crash): %s %s" % (
                u["name"], " | ".join(main["hard"])[:1500], main["out_tail"][-600:]))
            for ob in u["obs"]:
                records.append({"name": "%s::%s" % (u["name"], ob["fn"]), "engine": "verus", "unit": u["name"], "status": "undecided",
                                "function": ob.get("real"), "clause": ob.get("clause"), "kind": ob.get("kind")})
            continue
        # vacuity: the assert(false) probes must all fail, and the axiom probe must fail
        spec_fns = [e["fn"] for e in res["extracted"] if e["has_spec"]]
        probe_failed = {f["fn"] for f in probe["findings"] if "assertion failed" in f["kind"] or True}
        if probe["timed_out"] or probe["hard"] or probe["verified"] is None:
            info["undecided"].append("verus unit %s: probe variant did not run / timed out: %s" % (u["name"], str((probe["hard"] or [probe["out_tail"]])[0])[:800]))
            continue
        vac = [f for f in spec_fns if f not in probe_failed]
        if vac:
            info["undecided"].append("verus unit %s: vacuity guard: assert(false) is provable at the start of %s (contradictory precondition or axioms)" % (u["name"], vac))
            continue
        if "verif_vacuity_probe" in res["text"] and "verif_vacuity_probe" not in {f["fn"] for f in main["findings"]} and not main.get("undecided_fns"):
            info["undecided"].append("verus unit %s: axiom vacuity probe `ensures false` verified: the axiom set is inconsistent" % u["name"])
            continue
        failing = {}
        for f in main["findings"]:
            if f["fn"] == "verif_vacuity_probe":
                continue
            failing.setdefault(f["fn"] or "?", []).append(f)
        names = {o["fn"]: o for o in u["obs"]}
        for e in res["extracted"]:
            if e["has_spec"] and e["fn"] not in names:
                names[e["fn"]] = {"fn": e["fn"], "real": e["real"], "at": "%s:%d" % (e["file"], e["line"]), "clause": "contract of the extracted function", "kind": "exact"}
        forgiven = {}
        for fn, ob in names.items():
            arb = ob.get("arbiter")
            if arb and fn in failing and arbiter_ok(arb, u["name"], names, failing, unit_status):
                forgiven[fn] = failing.pop(fn)
        unknown_fail = [k for k in failing if k not in names]
        for fn, ob in sorted(names.items()):
            ex = [e for e in res["extracted"] if e["fn"] == fn]
            rec = {"name": "%s::%s" % (u["name"], fn), "engine": "verus", "unit": u["name"], "arbiter": ob.get("arbiter"),
                   "function": ob.get("real") or (ex[0]["real"] if ex else fn),
                   "at": ob.get("at") or ("%s:%d" % (ex[0]["file"], ex[0]["line"]) if ex else None),
                   "clause": ob.get("clause"), "kind": ob.get("kind", "exact"), "solver": "z3 (verus)",
                   "seconds": main["seconds"], "extracted_from_repo": bool(ex)}
            if fn in main.get("undecided_fns", []):
                rec["status"] = "undecided"
                rec["note"] = "no finished solver configuration proved it and at least one configuration timed out"
                info["undecided"].append("verus %s::%s: solver portfolio undecided (timeout)" % (u["name"], fn))
            elif fn in forgiven:
                rec["status"] = "discharged"
                rec["note"] = ("exact expression tree differs from the recorded association (%s); the idealised twin %s re-proved the "
                               "clause over the reals on this tree" % ("; ".join(f["msg"] for f in forgiven[fn]), ob.get("arbiter")))
            elif fn in failing and clients_all_pass(u["name"], fn):
                # the exact twin(s) proved that the code still computes the recorded expression tree, so the idealised
                # statement about that tree is the same mathematical fact as on the unchanged tree: a failure here is
                # solver instability on a perturbed query, not a change of behaviour
                rec["status"] = "undecided"
                rec["note"] = "idealised twin failed although its exact twin is proved: solver instability"
                info["undecided"].append("verus %s::%s: idealised twin failed while its exact twin holds (solver instability)" % (u["name"], fn))
            elif fn in failing:
                rec["status"] = "refuted"
                rec["failed"] = [{"description": f["msg"], "lines": f["lines"]} for f in failing[fn]]
                rp = os.path.join(replay_dir, "%s.%s.json" % (u["name"], fn))
                common.write_json(rp, {
                    "property": prop, "obligation": rec["name"], "engine": "verus", "unit": u["name"], "function": rec["function"],
                    "clause": rec["clause"], "failed": rec["failed"], "verifier_output": "\n\n".join(f["text"] for f in failing[fn]),
                    "cmd": main["cmd"], "repo_head": common.repo_head(), "counterexample": None,
                    "note": "Verus gives no model; no failing input was searched for",
                })
                rec["replay"] = rp
                violations.append({"site": rec["name"], "replay": rp, "known": rec["name"] in known_sites, "no_input": True, "rec": rec})
            else:
                rec["status"] = "discharged"
            records.append(rec)
        if unknown_fail:
            # an error inside a helper that is not a registered obligation: still a refuted proof step
            for k in unknown_fail:
                rec = {"name": "%s::%s" % (u["name"], k), "engine": "verus", "unit": u["name"], "function": k, "status": "refuted",
                       "failed": [{"description": f["msg"], "lines": f["lines"]} for f in failing[k]], "clause": "(unregistered helper)"}
                rp = os.path.join(replay_dir, "%s.%s.json" % (u["name"], k))
                common.write_json(rp, {"property": prop, "obligation": rec["name"], "engine": "verus", "failed": rec["failed"],
                                       "verifier_output": "\n\n".join(f["text"] for f in failing[k]), "cmd": main["cmd"]})
                rec["replay"] = rp
                violations.append({"site": rec["name"], "replay": rp, "known": rec["name"] in known_sites, "no_input": True, "rec": rec})
                records.append(rec)
        for k, v in res["rewrites"].items():
            info["rewrites_applied"]["%s: %s" % (u["name"], k)] = v
        info["units"].append({"unit": u["name"], "verified_fns": main["verified"], "errors": main["errors"], "seconds": main["seconds"],
                              "solver_configs": main["configs"],
                              "probe_failures": probe["errors"], "generated_lines": main["lines"],
                              "extracted": [{k: e[k] for k in ("fn", "real", "file", "line")} for e in res["extracted"]]})
        scan = scan_assumptions(res["text"])
        info["trusted_base"] += ["%s: %s" % (u["name"], s) for s in scan]
    return records, violations, info, cmds


def scan_assumptions(text):
    out = []
    for pat, label in ((r"\bassume\s*\(", "assume("), (r"\badmit\s*\(", "admit("), (r"external_body", "external_body"),
                       (r"\baxiom\s+fn\s+(\w+)", "axiom fn"), (r"assume_specification", "assume_specification"),
                       (r"\bunsafe\b", "unsafe"), (r"external_fn_specification", "external_fn_specification")):
        hits = re.findall(pat, text)
        if hits:
            if label == "axiom fn":
                out.append("axioms: " + ", ".join(sorted(set(hits))))
            else:
                out.append("%s x%d" % (label, len(hits)))
    return out
