#!/usr/bin/env python3
"""Writes /verif/MANIFEST.json from the per-property table below (kept here so that the text of a claim
sits next to the list of properties it covers). Run after changing a claim."""
import json
import os

VERIF = os.path.dirname(os.path.dirname(os.path.abspath(__file__)))

K_BASE = ("Trusted: Kani 0.68 (MIR->goto, models of core/alloc), CBMC 6.11, SAT/SMT solvers; sequential execution; "
          "contract attributes and harness modules are added to a per-run scratch copy of /repo (lines only added, listed in the evidence). ")
V_BASE = ("Verus units: the functions are cut verbatim from /repo on every run with the logged syntactic rewrites (evidence: rewrites_applied); "
          "f32 operators are total deterministic uninterpreted functions (A1); idealised clauses additionally use the real-number homomorphism A3; "
          "Reference<G> and the Getter/Updatable trait declarations are a trusted stub; Verus 0.2026.09.13 + Z3. ")

CLAIMS = {
    "C03": {
        "technique": "Kani proof harnesses (assume pre / assert post, loop-free, full i64 x payload domain) on every Datum operator impl, latest() and the replace helpers; function contract on latest()",
        "text": "Every one of the 34 Datum operator impls and the selection helpers is proved against its timestamp contract for all i64 timestamp pairs and all payload bit patterns (payloads f32, Quantity, State, Command, bool and a free-algebra token); loop-free harnesses over full-domain symbolic inputs are complete proofs. Stream/terminal/device timestamp clauses are carried by the C02/C08/C09/C13 obligations cross-listed in the evidence.",
        "note": K_BASE + "Unit exponents restricted to [-64,63] (A8) where a payload operator multiplies units.",
        "design_ref": "DESIGN.md section 5 C03",
    },
}

CLAIMS["C04"] = {
    "engine": "verus+kani",
    "technique": "Verus contracts on the extracted PIDControllerStream::{new,reset,update}: exact one-step contract (expression tree over uninterpreted f32 operators) + idealised one-step contract over the reals, induction lemmas over the spec step for all histories; Kani one-step harnesses for structure/purity (C05 module)",
    "text": "One-step contract of the real update() for an arbitrary pre-state satisfying the proved data invariant and an arbitrary input (Err / absent / present): post-state == pid_step(pre-state, input) exactly, and abs(post) == pid_step_r(abs(pre), input) over the reals (e = sp - pv, first sample I = D = 0, trapezoid, backward difference, weighted sum, stamped with the input time, reset on absent/error). For all finite histories, with no length bound, induction lemmas over pid_step_r give: reset erases history, closed form (I = trapezoidal sum, D = last backward difference) over any run of present samples, shift invariance, homogeneity, and agreement with the composition of the crate's integral/derivative streams.",
    "note": V_BASE + K_BASE + "A7: consecutive timestamps differ by less than 2^63 ns (else debug builds panic on overflow). Exact power-of-two scaling at bit level and rounding are not decided (idealised over the reals).",
    "design_ref": "DESIGN.md section 5 C04",
}

PENDING_REASON = "check not built yet at this commit (planned in DESIGN.md section 5); not claimed until its obligations are discharged on the unchanged tree"


def main():
    props = [json.loads(l)["id"] for l in open(os.path.join(VERIF, "properties.jsonl"))]
    checks = []
    na = []
    for pid in props:
        c = CLAIMS.get(pid)
        if not c:
            na.append({"property_id": pid, "reason": PENDING_REASON})
            continue
        if c.get("not_applicable"):
            na.append({"property_id": pid, "reason": c["not_applicable"]})
            continue
        checks.append({
            "property_id": pid,
            "quick_cmd": "./check %s --tier quick" % pid,
            "thorough_cmd": "./check %s --tier thorough" % pid,
            "evidence_file": "/verif/evidence/%s.json" % pid,
            "replay_cmd_template": "./check --replay {path}",
            "engine": c.get("engine", "kani"),
            "level_claimed": {"category": "proof", "text": c["text"], "design_ref": c.get("design_ref", "DESIGN.md section 5")},
            "level_note": c["note"],
            "technique": c["technique"],
        })
    man = {
        "version": 1,
        "setup_cmd": "python3 tools/selfcheck.py",
        "hooks": {
            "guard": "none: the machinery never edits /repo; contract attributes and harness modules are inserted under cfg(kani) into a per-run scratch copy of /repo's working tree",
            "enable": "tools/kani_engine.py annotate(): rsync /repo -> $VERIF_SCRATCH (default /var/tmp), add #[cfg_attr(kani, ...)] lines and #[cfg(kani)] mod lines, cargo kani; tools/verus_engine.py: cut functions verbatim into one file per unit, verus <file>",
            "baseline_off_cmd": "cd /repo && cargo test --workspace --no-fail-fast --offline",
            "source_commits": [],
            "add_only": True,
        },
        "engines": [
            {"name": "kani", "path": "tools/kani_engine.py", "serves_properties": sorted(p for p, c in CLAIMS.items() if "kani" in c.get("engine", "kani")),
             "kind_free_text": "Kani 0.68 / CBMC 6.11 proof harnesses and function contracts on the real crate (annotated scratch copy), counterexamples replayed natively with cargo kani playback"},
            {"name": "verus", "path": "tools/verus_engine.py", "serves_properties": sorted(p for p, c in CLAIMS.items() if "verus" in c.get("engine", "")),
             "kind_free_text": "Verus 0.2026.09.13 on functions extracted mechanically from /repo each run, with requires/ensures/invariants/lemmas from /verif/verus"},
        ],
        "checks": checks,
        "notes": "Exit codes: 0 all obligations discharged; 1 an obligation refuted (VIOLATION line); 2 undecided (lost anchor, unsupported construct, timeout) - never an alarm. Known findings: /verif/known_findings.txt.",
        "not_applicable": na,
    }
    with open(os.path.join(VERIF, "MANIFEST.json"), "w") as f:
        json.dump(man, f, indent=1)
        f.write("\n")
    print("MANIFEST.json: %d checks, %d not_applicable" % (len(checks), len(na)))


if __name__ == "__main__":
    main()
