#!/usr/bin/env python3
"""Writes /verif/MANIFEST.json from the per-property table below (kept here so that the text of a claim
sits next to the list of properties it covers). Run after changing a claim."""
import json
import os
import sys
sys.path.insert(0, os.path.dirname(os.path.abspath(__file__)))

VERIF = os.path.dirname(os.path.dirname(os.path.abspath(__file__)))

K_BASE = ("Trusted: Kani 0.68 (MIR->goto, models of core/alloc), CBMC 6.11, SAT/SMT solvers; sequential execution; "
          "contract attributes and harness modules are added to a per-run scratch copy of /repo (lines only added, listed in the evidence). ")
V_BASE = ("Verus units: the functions are cut verbatim from /repo on every run with the logged syntactic rewrites (evidence: rewrites_applied); "
          "f32 operators are total deterministic uninterpreted functions (A1); idealised clauses additionally use the real-number homomorphism A3; "
          "Reference<G> and the Getter/Updatable trait declarations are a trusted stub; Verus 0.2026.09.13 + Z3. ")

CLAIMS = {
    "C03": {
        "technique": "Kani proof harnesses (assume pre / assert post, loop-free, full i64 x payload domain) on every Datum operator impl, latest() and the replace helpers; function contract on latest()",
        "text": "Every one of the 34 Datum operator impls and the selection helpers is proved against its timestamp contract for all i64 timestamp pairs and all payload bit patterns (payloads f32, Quantity, State, Command, bool and a free-algebra token); loop-free harnesses over full-domain symbolic inputs are complete proofs. Stream/terminal/device timestamp clauses are carried by the C02/C08/C09/C13 obligations cross-listed in the evidence.",
        "note": K_BASE + "Unit exponents restricted to [-64,63] (A8) where a payload operator multiplies units.",
        "design_ref": "DESIGN.md section 5 C03",
    },
}

K = "kani"
V = "verus"


def claim(pid, engine, technique, text, note, ready=True):
    CLAIMS[pid] = {"engine": engine, "technique": technique, "text": text, "note": note,
                   "design_ref": "DESIGN.md section 5 %s, section 10" % pid, "ready": ready}


claim("C01", K,
      "Kani proof harnesses (cvc5 floating-point theory for the value clauses, SAT elsewhere) on every Unit/Quantity operator impl, every mixed Time/DimensionlessInteger impl and every conversion; constants checked against a name grammar",
      "Every operator impl and assign form is proved for all i8 x i8 exponent pairs within A8 and every f32 bit pattern: result exponents are the sum/difference/unchanged, the value is the same f32 operator on the raw values (true IEEE semantics via cvc5), mixed operators equal the Quantity operator after conversion, add/sub/ordering panic iff units differ (post-call cover unreachable), bare-unit operators agree with the Quantity operators, the 49 constants have the exponents their names state, PositionDerivative/Command conversions both ways.",
      K_BASE + "A8: exponents in [-64,63].")
claim("C02", K,
      "Kani proof harnesses over scripted fully symbolic inputs (every category assignment, error value and timestamp order at once) with a free-algebra token payload; n-ary streams unrolled completely per arity",
      "Each of the 16 combinators (plus NoneGetter, ConstantGetter) is proved equal to its documented outcome table written as an independent spec function: error order, absent handling, left fold with exactly the payload operator, timestamps, Kleene truth tables, Sum2/Product2 agreement with the n-ary streams, De Morgan duality, purity of get(). N-ary streams: complete per arity N (quick 1..5, thorough 1..8), labelled bounded by arity.",
      K_BASE + "A10 scripted inputs are pure; A7 in Expirer; parametricity argument for the token payload.")
claim("C03", K,
      "Kani proof harnesses (assume pre / assert post, loop-free, full i64 x payload domain) on every Datum operator impl, latest() and the replace helpers; function contract on latest(); stream/terminal/device timestamp clauses cross-listed from C02/C08/C09/C13",
      "Every one of the 34 Datum operator impls and the selection helpers is proved against its timestamp contract for all i64 timestamp pairs and all payload bit patterns (payloads f32, Quantity, State, Command, bool and a free-algebra token); loop-free harnesses over full-domain symbolic inputs are complete proofs. Stream, terminal and device timestamp clauses are the time components of the cross-listed C02/C08/C09/C13 obligations.",
      K_BASE + "Unit exponents restricted to [-64,63] (A8) where a payload operator multiplies units.")
claim("C04", "verus+kani",
      "Verus contracts on the extracted PIDControllerStream::{new,reset,update}: exact one-step contract (expression tree over uninterpreted f32 operators) + idealised one-step contract over the reals, induction lemmas over the spec step for all histories; Kani one-step harnesses for structure/purity (C05 module)",
      "One-step contract of the real update() for an arbitrary pre-state satisfying the proved data invariant and an arbitrary input (Err / absent / present): post-state == pid_step(pre-state, input) exactly, and abs(post) == pid_step_r(abs(pre), input) over the reals (e = sp - pv, first sample I = D = 0, trapezoid, backward difference, weighted sum, stamped with the input time, reset on absent/error). For all finite histories, with no length bound, induction lemmas over pid_step_r give: reset erases history, closed form (I = trapezoidal sum, D = last backward difference) over any run of present samples, shift invariance, homogeneity, and agreement with the composition of the crate's integral/derivative streams.",
      V_BASE + K_BASE + "A7: consecutive timestamps differ by less than 2^63 ns. Exact power-of-two scaling at bit level and rounding are not decided (idealised over the reals).")
claim("C05", "kani+verus",
      "Kani one-step contracts over an arbitrary symbolic pre-state (private fields made symbolic from a harness module inside the crate) for every stateful stream; Verus for the moving average (unbounded queue) and the value-level reset clauses",
      "For each of the stateful streams: freshness (get() is Err(e) only if this update's input was Err(e); freeze: its documented table), reset (step(s, r) == step(new, r) field by field for every reset event class; ignored absent events leave the state bit-unchanged), purity of get(), and inductiveness of each data invariant, all for an ARBITRARY pre-state, which makes the statement independent of history length. The stale-error defect of IntegralStream/DerivativeStream was found by these obligations and repaired (known_findings.txt).",
      K_BASE + V_BASE + "A10, A7.")
claim("C06", "kani+verus",
      "Kani proof harnesses over a fully symbolic MotionProfile (private fields symbolic under the data invariant) and symbolic query time; Verus for the constructor (panic-or-ordered) and the accessors' closed forms",
      "Presence table, piece<->mode table, monotone piece order with exact boundaries, acceleration values, History::get never panics / stamps t / has the mode's kind / carries the matching accessor's value, end command forever after completion - for every profile satisfying 0 <= t1 <= t2 <= t3 and every i64 time in the A7 range; the constructor either panics or yields ordered boundaries (Verus, idealised cast).",
      K_BASE + V_BASE + "A7: |t|, t3 < 2^60 ns.")
claim("C07", "verus+kani",
      "Verus contracts on the extracted MotionProfile::{new,get_acceleration,get_velocity,get_position} over the extracted Unit/Quantity/Time operator layer: exact expression trees + idealised closed forms over the reals; trapezoid lemmas over the real-valued trajectory",
      "The accessors are proved to compute vel_r/pos_r (the three closed forms per phase) over the reals, with integer nanosecond arithmetic exact and no unit-check panic or overflow; lemmas over vel_r/pos_r prove v(0)=v0, p(0)=p0, continuity of velocity and position at both joins, position is the integral of velocity in each phase (trapezoid identity), the velocity bound, and arrival at the end state for the constructor's kinematic durations; the constructor either panics or returns ordered boundaries, with max_acc = |max_acc| * sign(displacement).",
      V_BASE + "A7; idealised (A3): the epsilon-proportional tolerances and sub-nanosecond truncations are listed as not decided.")
claim("C08", "kani+verus",
      "Kani proof harnesses on Invert/GearTrain/Axle<N>/Differential::update with the crate's State operator impls replaced by deterministic uninterpreted stand-ins (-Z stubbing): the stored states are compared with the expected expression trees",
      "For every have/lack subset of terminal data and all four differential trust modes: which terminals are written, with which expression tree of the readings (written out in each obligation's clause), stamped with the newest contributing time; fill-in of terminals without information; differential waits for every trusted branch; GearTrain::new ratio and sign; no panic. Axle complete per size N.",
      K_BASE + "Operator stand-ins: anything proved holds for every interpretation of the operators, the real ones have their own contracts (C14, C03). The real-number meaning of those trees (constraint satisfied, least-squares projection for any number of axle terminals, fixed points, distrusted branch) is proved as Verus lemmas (unit c08_meaning) over the formulas quoted in the Kani obligations; the formula-to-code link is the Kani tree obligation plus A3.")
claim("C09", K,
      "Kani proof harness: one symbolic connect/disconnect step over an arbitrary symmetric matching of n real RefCell<Terminal> cells with symbolic slots (private fields set from inside the crate); read contracts per getter",
      "After one symbolic operation from ANY symmetric matching: no panic (RefCell double borrows are panics Kani reports), links again a symmetric matching, exactly the expected pairs changed, all slots untouched - one step over arbitrary matchings covers every operation sequence. State read = mean of own and partner (or whichever exists), command read = newer (own wins ties), combined read consistent; connected terminals read the same state. The connect() double-borrow defect was found here and repaired (known_findings.txt).",
      K_BASE + "n = 4 cells quick (connect touches at most 4 cells), up to 6 thorough.")
claim("C10", "verus+kani",
      "Verus contracts on the extracted IntegralStream/DerivativeStream/AccelerationToState/VelocityToState/PositionToState::update over the extracted Quantity/Unit/Time operator layer: exact expression trees incl. unit exponents + idealised steps over the reals; induction lemmas (trapezoid sums, difference quotients, reset, shift)",
      "One-step contracts for arbitrary pre-states: post == step(pre, input) exactly (units: input unit times/divided by seconds; output stamped with the newest sample; absent until 2 resp. 3 samples; unit checks never fire for correctly dimensioned input), and abs(post) == step_r(abs(pre), input) over the reals; for runs of any length the integral is the trapezoidal sum and the derivative the last difference quotient, converters the same applied once or twice; reset erases history; shift invariance.",
      V_BASE + "A7, A8, constant input unit.")
claim("C11", "verus+kani",
      "Verus contracts on the extracted CommandPID::{new,reset,impl_set,get,update} (exact + idealised), lemmas over the spec step; Kani one-step structure harnesses (C05 module)",
      "post == cpid_step(pre, input) with gains selected by the command kind, error against the matching state component, the staged record filling one level per sample; get() returns output / first integral / second integral by kind and is absent for exactly the first 0/1/2 samples; impl_set with an equal command changes nothing, with a different one resets; absent resets; an input error is cached and the next sample starts afresh.",
      V_BASE + "update_following_data: not following => no-op (C15); SettableData opaque stub.")
claim("C12", "verus+kani",
      "Verus contracts on the extracted EWMAStream (f32 instance and Quantity impl) and MovingAverageStream::update with loop invariants over the unbounded queue; idealised convexity lemmas",
      "EWMA: value == prev*(1-L) + new*L with L = 1 - powf(1-s, dt), first sample unchanged (idealised), time = sample time, the expect never fires; moving average: for any positive window and any event no index is out of range, the trim loop terminates and never pops the newest element, integer weights are non-negative and sum to the window for non-decreasing timestamps; idealised: output is the weighted mean.",
      V_BASE + "A4 (powf), A7.")
claim("C13", "kani+verus",
      "Kani proof harnesses on the command halves of Invert/GearTrain/Axle<N>::update and the terminal command read, with Command operator impls replaced by uninterpreted stand-ins",
      "After update every device terminal reads the newest command among those present (documented tie rule), kind and timestamp preserved, value mapped by the expected tree (negated / times ratio / divided by ratio / unchanged); no command => none written; a differential leaves all command slots bit-unchanged; a two-device chain harness.",
      K_BASE + "Value contracts of Command mul/div/neg: Verus unit c14_cmd_ops (exact) and Kani c14_command_*; chains of k devices: induction lemma c13_chain (any k) over the per-device maps, plus a 2-device Kani harness.")
claim("C14", "kani+verus",
      "Kani proof harnesses (cvc5 for State/Quantity float formulas, SAT for Command) on State::update, the setters, State/Command arithmetic, Command <-> State/Quantity/f32 conversions",
      "State::update is exactly v' = v + dt*a, p' = p + dt*(v+v')/2 (true IEEE semantics) for every dt; setters accept the right unit and reject every other unit leaving the state bit-unchanged; Command::from(State) is the lowest non-zero derivative; accessors round-trip; arithmetic component-wise; different kinds always panic.",
      K_BASE)
claim("C15", K,
      "Kani one-step contracts on the provided methods of Settable against an arbitrary implementor, and on GetterFromHistory / ConstantGetter / TimeGetterFromGetter with scripted clocks and histories",
      "last request changes iff impl_set succeeded; following forwards exactly present values, nothing when absent, propagates errors, stops after stop_following; history adapter queries now + offset and restamps with now, constructors fix the offset as documented; constant getter; time getter from getter (absent => FromNone, its expect unreachable).",
      K_BASE + "A7.")
claim("C16", "kani+rustc",
      "Kani proof harnesses with default memory-safety checks: functional equality under nondeterministic uninitialised memory for the n-ary streams, the terminal read and Axle::new; refutation witnesses for the lifetime-widening accessors",
      "First sentence: results of SumStream/ProductStream (per arity), the terminal state read (all four presence combinations) and Axle::new (per size) equal their specification for every execution, which, since CBMC gives unwritten MaybeUninit slots arbitrary contents, means they never depend on unwritten memory; no index out of range. Second sentence: not decidable as a contract (type soundness over all programs); the eleven accessors that widen &self to &'a are exhibited by safe witness programs and recorded as known findings.",
      K_BASE)
claim("C17", "kani+rustc",
      "Kani sequential contracts per Reference variant (clone/borrow/borrow_mut/into_inner/to_dyn!) inside the crate, plus harness crates outside rrtk that expand to_dyn! with and without alloc/std features",
      "For each variant in the build: a write through any clone's borrow_mut is read through every other clone; Rc/Arc targets stay alive after the original is dropped; to_dyn! succeeds and aliases for every variant it lists. The concurrency clause is not decidable with Kani and is listed as not decided.",
      K_BASE + "Sequential execution only.")
claim("C18", "kani+verus",
      "Kani proof harnesses on every Time/DimensionlessInteger operator and conversion (cvc5 for float conversions)",
      "Integer operators are exact i64 arithmetic under the weakest no-overflow precondition; i64 conversions are the identity; Time -> Quantity is (ns as f32)/1e9 in seconds; Quantity -> Time is (v*1e9) as i64 for seconds and Err for every other unit; every mixed operator equals the Quantity operator after conversion.",
      K_BASE + V_BASE + "The accuracy clauses (monotone, two ulps, round trip within |t|*2^-22 + 1 ns) are Verus lemmas under the standard model of floating-point arithmetic (A12: each primitive operation correctly rounded with relative error 2^-24 and monotone), composed along the exact contracts of the two extracted conversions; the bit-precise attempts did not finish.")
claim("C19", "kani+verus",
      "the same value contracts re-proved by Kani against the code each of 7 feature configurations compiles (quick: 3), plus no-panic/no-reject harnesses for the unchecked builds and a scan of every cfg site",
      "Every cfg-dependent item is listed by a scan of /repo; for each, the value contract - a function of the raw f32/i64 inputs only - is proved in every configuration, so equal inputs give equal numbers in all of them; with checking compiled out add/sub/ordering/setters/try_from never panic or reject for any pair of units; std abs and the manual branch agree.",
      K_BASE + "Whole-program equality follows compositionally; powf across std/libm/micromath excluded by the property.")
claim("C20", K,
      "Kani proof harnesses on ActuatorWrapper/GetterStateDeviceWrapper/PIDWrapper::update with recording inner objects whose outcomes are symbolic",
      "The inner settable receives exactly the terminal's combined read (nothing if none) before being updated; the encoder wrapper writes the getter's present state bit-unchanged and leaves the terminal untouched when absent; errors propagate in call order; the PID wrapper's wiring (clock, constant getters, follow) delivers exactly the inner CommandPID's output to the motor.",
      K_BASE + "PIDWrapper harnesses use CBMC --max-field-sensitivity-array-size 1024.")

# additions made while the seeded changes were evaluated (DESIGN.md section 11): appended to the technique text
EXTRA = {
    "C01": "; the operator obligations also run in a release-like configuration (debug assertions off, dim_check_release)",
    "C02": "; the exponent stream also in the no_std libm / micromath configurations",
    "C03": "; the device command-relay obligations (C13) are listed here for the device-update and command-read clauses",
    "C04": "; the PID stream's structural Kani obligations (C05) are listed here (output stamped with the input's time, reset equivalence), also in the release-like configuration",
    "C06": "; every accessor obligation also with debug assertions off; get_piece against the integer statement in an A1-only Verus unit",
    "C07": "; Kani: the constructor's acceptance obligations (returns exactly when the three durations are >= 0), also with debug assertions off, and the Command::from(State) contract; exact expression trees for the three position closed forms",
    "C10": "; Kani obligations on the real structs for how the computed terms are combined (recording stand-ins for Quantity * and /), in the default and the unchecked configuration, and for the unit-mismatch panics of the to-state converters",
    "C11": "; Kani obligations on the real struct through the public set / followed-getter path, in the default and the unchecked configuration",
    "C12": "; the powf contract (A4) is proved for the libm back end with Kani (zero exponent quick, unit interval thorough)",
    "C14": "; the mixed-kind panics also with unit checking compiled out; per-configuration State contracts (C19) and the Quantity::from(Time) contract (C18) listed here",
    "C16": "; rustc decides seven must-not-compile probes of the safe API surface of Reference (kani/ext/c16_safe_surface); the Reference lifetime obligations of C17 are listed here; axle obligations also with debug assertions off",
    "C17": "; four downstream harness crates (feature-less, same-named features, alloc-only rrtk, #![no_std] caller); a downstream crate that does not compile is decided by a compile differential attributed to the macro; clone_from; single evaluation of the macro argument",
    "C19": "; release-like configurations; Verus: the powf wrapper returns exactly the back end's value (std and micromath units); every configuration-dependent construct is compared with the committed baseline contracts/c19_cfg_sites.json",
}
for _k, _v in EXTRA.items():
    CLAIMS[_k]["technique"] += _v

READY = {"C%02d" % i for i in range(1, 21)}

PENDING_REASON = "check not built yet at this commit (planned in DESIGN.md section 5); not claimed until its obligations are discharged on the unchanged tree"


def _served(engine):
    """Properties for which the engine actually has obligations (cross-listed ones included)."""
    import run as R
    import kani_engine as KE
    import verus_engine as VE
    out = set()
    for i in range(1, 21):
        pid = "C%02d" % i
        if engine == "kani":
            _m, obs = R.kani_obligations(pid, "thorough")
            if obs or any(pid in h["props"] for e in KE.discover_ext() for h in e["harnesses"]):
                out.add(pid)
        elif engine == "verus":
            if VE.obligations(pid, "thorough"):
                out.add(pid)
        else:
            if any(pid in q["props"] for e in KE.discover_ext() for q in e.get("probes", [])) or any(pid in h["props"] for e in KE.discover_ext() for h in e["harnesses"]):
                out.add(pid)
    return sorted(out)


def main():
    props = [json.loads(l)["id"] for l in open(os.path.join(VERIF, "properties.jsonl"))]
    checks = []
    na = []
    for pid in props:
        c = CLAIMS.get(pid)
        if c and pid not in READY:
            c = None
        if not c:
            na.append({"property_id": pid, "reason": PENDING_REASON})
            continue
        if c.get("not_applicable"):
            na.append({"property_id": pid, "reason": c["not_applicable"]})
            continue
        checks.append({
            "property_id": pid,
            "quick_cmd": "./check %s --tier quick" % pid,
            "thorough_cmd": "./check %s --tier thorough" % pid,
            "evidence_file": "/verif/evidence/%s.json" % pid,
            "replay_cmd_template": "./check --replay {path}",
            "engine": c.get("engine", "kani"),
            "level_claimed": {"category": "proof", "text": c["text"], "design_ref": c.get("design_ref", "DESIGN.md section 5")},
            "level_note": c["note"],
            "technique": c["technique"],
        })
    man = {
        "version": 1,
        "setup_cmd": "python3 tools/selfcheck.py",
        "hooks": {
            "guard": "none: the machinery never edits /repo; contract attributes and harness modules are inserted under cfg(kani) into a per-run scratch copy of /repo's working tree",
            "enable": "tools/kani_engine.py annotate(): rsync /repo -> $VERIF_SCRATCH (default /var/tmp), add #[cfg_attr(kani, ...)] lines and #[cfg(kani)] mod lines, cargo kani; tools/verus_engine.py: cut functions verbatim into one file per unit, verus <file>",
            "baseline_off_cmd": "cd /repo && cargo test --workspace --no-fail-fast --offline",
            "source_commits": [],
            "add_only": True,
        },
        "engines": [
            {"name": "kani", "path": "tools/kani_engine.py", "serves_properties": _served("kani"),
             "kind_free_text": "Kani 0.68 / CBMC 6.11 proof harnesses and function contracts on the real crate (annotated scratch copy, nine feature/profile configurations), counterexamples replayed natively with cargo kani playback; harness crates outside rrtk (kani/ext) for what a downstream crate sees"},
            {"name": "verus", "path": "tools/verus_engine.py", "serves_properties": _served("verus"),
             "kind_free_text": "Verus 0.2026.09.13 on functions extracted mechanically from /repo each run, with requires/ensures/invariants/lemmas from /verif/verus"},
            {"name": "rustc", "path": "tools/kani_engine.py", "serves_properties": _served("rustc"),
             "kind_free_text": "rustc's type checker as the deciding step for two kinds of obligation about the public macros/API as seen from a downstream crate: 'the expansion of to_dyn! compiles in this calling crate' (differential against the same crate with the macro call compiled out) and 'this expression does not compile in safe code' (must-not-compile probes, kani/ext/c16_safe_surface)"},
        ],
        "checks": checks,
        "notes": "Exit codes: 0 all obligations discharged; 1 an obligation refuted (VIOLATION line); 2 undecided (lost anchor, unsupported construct, timeout) - never an alarm. Known findings: /verif/known_findings.txt.",
        "not_applicable": na,
    }
    with open(os.path.join(VERIF, "MANIFEST.json"), "w") as f:
        json.dump(man, f, indent=1)
        f.write("\n")
    print("MANIFEST.json: %d checks, %d not_applicable" % (len(checks), len(na)))


if __name__ == "__main__":
    main()
