"""Engine K: Kani on the real crate, annotated in a scratch copy (lines are only ever added).

Harness modules live in /verif/kani/*.rs.  Header lines of a module:

    //@host src/datum.rs                      file (optionally ::inline_mod) whose private items the module may use
    //@config dev[,other]                     build configurations this module is compiled in

Contract attributes placed on real functions of the scratch copy:

    //@contract file=src/lib.rs [in="impl Add for Quantity"] sig="pub fn latest<T>(dat1: Datum<T>, dat2: Datum<T>) -> Datum<T>"
    //@| kani::ensures(|r| ...)

Obligation metadata, directly above a harness fn or a macro invocation whose first argument is the harness name:

    //@ob fn="<Datum<T> as Add>::add" at=src/datum.rs clause="..." [prop=C03,C02] [tier=thorough] [bounded="N<=5"] [configs=dev]
"""
import json
import os
import re
import shlex

from common import (VERIF, Undecided, copy_repo, log, match_brace, new_scratch, norm_ws, read, run, write)

KANI_DIR = os.path.join(VERIF, "kani")

CONFIGS = {
    # name: cargo feature arguments.  Kani builds with the dev profile (debug_assertions on).
    "dev": ["--features", "devices"],
    "std_nocheck": ["--no-default-features", "--features", "std,devices"],
    "std_relcheck": ["--no-default-features", "--features", "std,devices,dim_check_release"],
    "libm_nocheck": ["--no-default-features", "--features", "alloc,libm,devices"],
    "libm_check": ["--no-default-features", "--features", "alloc,libm,devices,dim_check_release"],
    "micromath_nocheck": ["--no-default-features", "--features", "alloc,micromath,devices"],
    "micromath_check": ["--no-default-features", "--features", "alloc,micromath,devices,dim_check_release"],
    "bare": ["--no-default-features"],
    # optimised-build semantics: debug assertions (and with them rustc's overflow panics and `debug_assert!`) compiled
    # out via RUSTFLAGS (CONFIG_ENV).  `rel_check` = `--release --features dim_check_release` (units still checked),
    # `rel_default` = `--release` with the default features (dim_check_debug without debug assertions = unchecked).
    "rel_check": ["--features", "devices,dim_check_release"],
    "rel_default": ["--features", "devices"],
}
CONFIG_ENV = {
    "rel_check": {"RUSTFLAGS": "-C debug-assertions=off"},
    "rel_default": {"RUSTFLAGS": "-C debug-assertions=off"},
}

KV = re.compile(r'(\w+)=("([^"]*)"|\S+)')


def parse_kv(s):
    out = {}
    for m in KV.finditer(s):
        out[m.group(1)] = m.group(3) if m.group(3) is not None else m.group(2)
    return out


def parse_module(path):
    text = read(path)
    lines = text.splitlines()
    mod = {"path": path, "stem": os.path.splitext(os.path.basename(path))[0], "host": None,
           "configs": ["dev"], "contracts": [], "harnesses": []}
    i = 0
    pending = None
    while i < len(lines):
        ln = lines[i].strip()
        if ln.startswith("//@always"):
            mod["always"] = True
        elif ln.startswith("//@host"):
            mod["host"] = ln.split(None, 1)[1].strip()
        elif ln.startswith("//@quickconfigs"):
            mod["quickconfigs"] = [c.strip() for c in ln.split(None, 1)[1].split(",") if c.strip()]
        elif ln.startswith("//@config"):
            mod["configs"] = [c.strip() for c in ln.split(None, 1)[1].split(",") if c.strip()]
        elif ln.startswith("//@contract"):
            c = parse_kv(ln[len("//@contract"):])
            c["attrs"] = []
            i += 1
            while i < len(lines) and lines[i].strip().startswith("//@|"):
                c["attrs"].append(lines[i].strip()[4:].strip())
                i += 1
            mod["contracts"].append(c)
            continue
        elif ln.startswith("//@ob"):
            pending = parse_kv(ln[len("//@ob"):])
        else:
            m = re.match(r"(?:pub\s+)?fn\s+(c\d\d_\w+)\s*\(", ln) or re.match(r"\w+!\s*[\(\{\[]\s*(c\d\d_\w+)\s*[,\)]", ln)
            if m:
                name = m.group(1)
                meta = pending or {}
                pending = None
                props = [p.strip() for p in meta.get("prop", "").split(",") if p.strip()]
                own = "C" + name[1:3]
                if own not in props:
                    props.insert(0, own)
                mod["harnesses"].append({
                    "name": name, "props": props, "meta": meta, "module": mod["stem"],
                    "tier": meta.get("tier", "quick"),
                    "configs": [c for c in meta.get("configs", "").split(",") if c] or None,
                })
        i += 1
    if mod["host"] is None:
        raise Undecided("kani module %s has no //@host line" % path)
    return mod


def discover():
    mods = []
    for f in sorted(os.listdir(KANI_DIR)):
        if f.endswith(".rs") and not f.startswith("_"):
            mods.append(parse_module(os.path.join(KANI_DIR, f)))
    return mods


def _find_line_start(text, idx):
    j = text.rfind("\n", 0, idx)
    return j + 1


def find_anchor(text, sig, in_hdr=None, what=""):
    """Return index of the start of the line on which `sig` (whitespace-normalised) starts.
    With in_hdr, search only inside the braces of the unique item header containing in_hdr."""
    lo, hi = 0, len(text)
    if in_hdr:
        hits = _find_norm(text, in_hdr, 0, len(text))
        if len(hits) != 1:
            raise Undecided("lost anchor: header %r matched %d times (%s)" % (in_hdr, len(hits), what))
        b = text.find("{", hits[0])
        if b < 0:
            raise Undecided("lost anchor: no body after %r" % in_hdr)
        lo, hi = b, match_brace(text, b)
    hits = _find_norm(text, sig, lo, hi)
    if len(hits) != 1:
        raise Undecided("lost anchor: signature %r matched %d times (%s)" % (sig, len(hits), what))
    return _find_line_start(text, hits[0])


def _find_norm(text, needle, lo, hi):
    """All start offsets in text[lo:hi] where needle matches modulo whitespace runs."""
    toks = norm_ws(needle).split(" ")
    pat = r"\s+".join(re.escape(t) for t in toks)
    # allow optional whitespace around punctuation so that rustfmt line breaks do not matter
    return [m.start() + lo for m in re.finditer(pat, text[lo:hi])]


def annotate(scratch, mods, config):
    """Insert contract attributes and `mod` lines for every module built in `config`."""
    hdir = os.path.join(scratch, "verif_kani")
    os.makedirs(hdir, exist_ok=True)
    # common support code shared by all harness modules
    for f in os.listdir(KANI_DIR):
        if f.endswith(".rs"):
            write(os.path.join(hdir, f), read(os.path.join(KANI_DIR, f)))
    edits = {}  # file -> list of (offset, text)
    added = []
    for mod in mods:
        if config not in mod["configs"]:
            continue
        host = mod["host"]
        inline = None
        if "::" in host:
            host, inline = host.split("::", 1)
        hp = os.path.join(scratch, host)
        if not os.path.exists(hp):
            raise Undecided("lost anchor: host file %s missing" % host)
        text = read(hp)
        line = '#[cfg(kani)] #[path = "%s"] mod verif_%s;\n' % (os.path.join(hdir, mod["stem"] + ".rs"), mod["stem"])
        if inline:
            hits = [m.start() for m in re.finditer(r"\bmod\s+%s\s*\{" % re.escape(inline), text)]
            if len(hits) != 1:
                raise Undecided("lost anchor: inline module %s in %s" % (inline, host))
            close = match_brace(text, text.find("{", hits[0]))
            off = _find_line_start(text, close)
            edits.setdefault(host, []).append((off, "    " + line))
        else:
            edits.setdefault(host, []).append((len(text), ("" if text.endswith("\n") else "\n") + line))
        added.append({"file": host, "adds": line.strip()})
        for c in mod["contracts"]:
            cf = c["file"]
            ctext = read(os.path.join(scratch, cf))
            off = find_anchor(ctext, c["sig"], c.get("in"), what="%s contract" % mod["stem"])
            indent = re.match(r"[ \t]*", ctext[off:]).group(0)
            ins = "".join("%s#[cfg_attr(kani, %s)]\n" % (indent, a) for a in c["attrs"])
            edits.setdefault(cf, []).append((off, ins))
            added.append({"file": cf, "before": c["sig"], "adds": c["attrs"]})
    for f, lst in edits.items():
        p = os.path.join(scratch, f)
        text = read(p)
        for off, ins in sorted(lst, key=lambda x: -x[0]):
            text = text[:off] + ins + text[off:]
        write(p, text)
    write(os.path.join(scratch, ".cargo", "config.toml"), "[net]\noffline = true\n")
    return added


def kani_cmd(config, extra):
    return (["cargo", "kani"] + CONFIGS[config] +
            ["-Z", "function-contracts", "-Z", "stubbing", "-Z", "unstable-options", "--no-overflow-checks"] + extra)


def run_harnesses(scratch, config, names, jobs, timeout_s, per_harness_timeout="900s", cbmc_args=None):
    """Run the named harnesses (exact) in one cargo-kani invocation. Returns (results, raw_output, cmd)."""
    out_json = os.path.join(scratch, "kani_out_%s.json" % config)
    if os.path.exists(out_json):
        os.remove(out_json)
    extra = ["--output-format", "terse", "-j", str(jobs), "--export-json", out_json, "--exact",
             "--harness-timeout", per_harness_timeout]
    for n in names:
        extra += ["--harness", n]
    if cbmc_args:
        extra += ["--cbmc-args"] + cbmc_args.split()
    cmd = kani_cmd(config, extra)
    rc, out, secs = run(cmd, cwd=scratch, timeout=timeout_s, extra_env=CONFIG_ENV.get(config))
    if rc == -9:
        raise Undecided("cargo kani timed out after %ss (config %s)" % (timeout_s, config))
    if not os.path.exists(out_json):
        tail = "\n".join(l for l in out.splitlines() if "warning" not in l)[-6000:]
        raise Undecided("cargo kani produced no result file (build failure?) config=%s rc=%s\n%s" % (config, rc, tail))
    data = json.loads(read(out_json))
    results = {}
    stats = {c["harness_id"]: c for c in data.get("cbmc", [])}
    pdet = {c["harness_id"]: c["property_details"] for c in data.get("property_details", [])}
    shp = {h["pretty_name"]: bool((h.get("attributes") or {}).get("should_panic")) for h in data.get("harness_metadata", [])}
    for r in data["verification_results"]["results"]:
        hid = r["harness_id"]
        st = stats.get(hid, {})
        checks = r.get("checks", [])
        failed = [c for c in checks if c.get("status") == "Failure"]
        covers = [c for c in checks if c.get("category") == "cover"]
        results[hid] = {
            "harness": hid,
            "status": r.get("status"),
            "duration_ms": r.get("duration_ms"),
            "n_checks": len(checks),
            "failed_checks": [{"description": c.get("description"), "function": c.get("function"),
                               "location": c.get("location"), "category": c.get("category")} for c in failed],
            "covers": [{"description": c.get("description"), "status": c.get("status")} for c in covers],
            "undetermined": [c.get("description") for c in checks if str(c.get("status")).lower() in ("undetermined", "solver_error")],
            "solver": (st.get("configuration") or {}).get("solver"),
            "solver_s": (st.get("cbmc_stats") or {}).get("runtime_solver_s"),
            "vccs": (st.get("cbmc_stats") or {}).get("vccs_generated"),
            "property_details": pdet.get(hid),
            "should_panic": shp.get(hid, False),
        }
    return results, out, " ".join(shlex.quote(c) for c in cmd), data


def playback(scratch, config, full_name, module_file, cbmc_args=None):
    """Re-run one failing harness with concrete playback, append the generated unit test to the harness
    module of the scratch copy and execute it natively (cargo kani playback --lib): the real functions of
    /repo run on the counterexample values and the harness' own assertions are evaluated by rustc-compiled code."""
    short = full_name.split("::")[-1]
    cmd = kani_cmd(config, ["--output-format", "terse", "--exact", "--harness", full_name,
                            "-Z", "concrete-playback", "--concrete-playback=print"] +
                   (["--cbmc-args"] + cbmc_args.split() if cbmc_args else []))
    rc, out, _ = run(cmd, cwd=scratch, timeout=1800, extra_env=CONFIG_ENV.get(config))
    blocks = [b for b in re.findall(r"```\n(.*?)```", out, re.S) if "kani_concrete_playback_" in b]
    if not blocks:
        return {"generated": False, "kani_output": _tail(out)}
    # Kani prints one test per reported check; prefer the one generated for a failed assertion / panic over the
    # one generated for a satisfied cover (e.g. the reach-end marker)
    def _rank(b):
        m2 = re.search(r"Check for `([^`]*)`", b)
        kind = m2.group(1) if m2 else ""
        return 0 if kind in ("assertion", "panic", "safety_check", "memory-safety", "overflow") or "assert" in kind else (2 if "cover" in kind else 1)
    blocks.sort(key=_rank)
    code = blocks[0]
    # drop the generated doc comment (a multi-line check description breaks it); keep the test itself
    k = code.find("#[test]")
    if k >= 0:
        code = code[k:]
    test = re.search(r"fn (kani_concrete_playback_\w+)", code).group(1)
    return run_playback_test(scratch, config, module_file, code, test, short)


def run_playback_test(scratch, config, module_file, code, test, short):
    mp = os.path.join(scratch, "verif_kani", module_file)
    write(mp, read(mp) + "\n" + code + "\n")
    pcmd = ["cargo", "kani", "playback", "--lib"] + CONFIGS[config] + ["-Z", "concrete-playback", "--", test]
    rc2, out2, _ = run(pcmd, cwd=scratch, timeout=1800, extra_env=CONFIG_ENV.get(config))
    ran = bool(re.search(r"test \S*%s \.\.\. (ok|FAILED)" % re.escape(test), out2))
    failed_natively = bool(re.search(r"test \S*%s \.\.\. FAILED" % re.escape(test), out2))
    panic = re.findall(r"panicked at [^\n]*\n[^\n]*", out2)
    return {"generated": True, "test": test, "test_code": code, "harness_short": short,
            "native_cmd": " ".join(pcmd), "native_ran": ran, "native_failed": failed_natively,
            "native_panic": panic[:3], "native_output_tail": _tail(out2, 2500)}


def _tail(s, n=4000):
    s = "\n".join(l for l in s.splitlines() if not l.startswith("warning"))
    return s[-n:]


# ---------------------------------------------------------------------------------------------- external harness crates
EXT_DIR = os.path.join(KANI_DIR, "ext")


def discover_ext():
    """Harness crates OUTSIDE rrtk (kani/ext/<crate>): they depend on the scratch copy of /repo by path (RRTK_PATH in
    their Cargo.toml) and check properties of rrtk's public macros as seen from a downstream crate."""
    out = []
    if not os.path.isdir(EXT_DIR):
        return out
    for c in sorted(os.listdir(EXT_DIR)):
        lib = os.path.join(EXT_DIR, c, "src", "lib.rs")
        if not os.path.exists(lib):
            continue
        lines = read(lib).splitlines()
        pending = None
        hs = []
        probes = []
        for ln in lines:
            t = ln.strip()
            if t.startswith("//@probe"):
                kv = parse_kv(t[len("//@probe"):])
                name = kv.get("name", "")
                props = [x.strip() for x in kv.get("prop", "").split(",") if x.strip()]
                own = "C" + name[1:3]
                if own not in props:
                    props.insert(0, own)
                probes.append({"name": name, "cfg": kv.get("cfg"), "props": props, "meta": kv, "tier": kv.get("tier", "quick")})
                continue
            if t.startswith("//@ob"):
                pending = parse_kv(t[len("//@ob"):])
                continue
            m = re.match(r"(?:pub\s+)?fn\s+(c\d\d_\w+)\s*\(", t)
            if m and pending is not None:
                name = m.group(1)
                props = [x.strip() for x in pending.get("prop", "").split(",") if x.strip()]
                own = "C" + name[1:3]
                if own not in props:
                    props.insert(0, own)
                hs.append({"name": name, "props": props, "meta": pending, "tier": pending.get("tier", "quick")})
                pending = None
        out.append({"crate": c, "dir": os.path.join(EXT_DIR, c), "harnesses": hs, "probes": probes})
    return out


def expansion_blame(cdir):
    """The ext crate did not build.  Decide whether the named obligation "to_dyn! expands to code that compiles in this
    calling crate" is what failed: plain rustc (cargo check --tests) must fail WITH the single to_dyn! call compiled in,
    name the macro in its diagnostics, and succeed with `--cfg verif_no_to_dyn` (same crate, same rrtk copy, everything
    else still type-checked against rrtk's API).  Anything else (rrtk itself does not build in this configuration, the
    harness crate uses an API that changed, ...) is not a refutation: returns None and the caller stays undecided."""
    rc1, out1, _ = run(["cargo", "check", "--offline", "--tests"], cwd=cdir, timeout=1800, extra_env={"RUSTFLAGS": ""})
    if rc1 == 0:
        return None
    if not re.search(r"to_dyn", out1) or not re.search(r"(?m)^error", out1):
        return None
    rc2, out2, _ = run(["cargo", "check", "--offline", "--tests"], cwd=cdir, timeout=1800,
                       extra_env={"RUSTFLAGS": "--cfg verif_no_to_dyn"})
    if rc2 != 0:
        return None
    errs = re.findall(r"(?ms)^error.*?(?=^error|^warning|\Z)", out1)
    return {"cmd": "cargo check --offline --tests", "with_to_dyn_rc": rc1, "without_to_dyn_rc": rc2,
            "diagnostics": _tail("".join(errs) or out1, 3000)}


def prepare_ext_crate(ext):
    """Copy the ext crate and /repo's working tree into one scratch dir and point the dependency at the copy."""
    scratch = new_scratch("x." + ext["crate"])
    repo_copy = os.path.join(scratch, "rrtk")
    os.makedirs(repo_copy)
    copy_repo(repo_copy)
    cdir = os.path.join(scratch, ext["crate"])
    import shutil
    shutil.copytree(ext["dir"], cdir)
    for root, _dirs, files in os.walk(cdir):
        if "Cargo.toml" in files:
            ct = os.path.join(root, "Cargo.toml")
            write(ct, read(ct).replace("RRTK_PATH", repo_copy))
    write(os.path.join(cdir, ".cargo", "config.toml"), "[net]\noffline = true\n")
    return cdir


def run_ext_probes(ext, probes):
    """Must-not-compile obligations of a downstream crate: the crate must build without any probe (else undecided) and
    `cargo check` with `--cfg <probe>` must fail for every probe.  Returns {name: {"rejected": bool, "diagnostics": str}}."""
    cdir = prepare_ext_crate(ext)
    rc0, out0, _ = run(["cargo", "check", "--offline"], cwd=cdir, timeout=1800, extra_env={"RUSTFLAGS": ""})
    if rc0 != 0:
        raise Undecided("ext crate %s does not build without probes: %s" % (ext["crate"], _tail(out0, 1500)))
    res = {}
    for pr in probes:
        rc, out, _ = run(["cargo", "check", "--offline"], cwd=cdir, timeout=1800, extra_env={"RUSTFLAGS": "--cfg %s" % pr["cfg"]})
        errs = re.findall(r"(?m)^error(?:\[E\d+\])?: [^\n]*", out)
        if rc == 0 and "Finished" not in out:
            raise Undecided("ext crate %s probe %s: cargo check gave no verdict" % (ext["crate"], pr["name"]))
        res[pr["name"]] = {"rejected": rc != 0 and bool(errs), "errors": errs[:3], "cmd": "RUSTFLAGS='--cfg %s' cargo check --offline" % pr["cfg"],
                           "output_tail": _tail(out, 1200)}
        if rc != 0 and not errs:
            raise Undecided("ext crate %s probe %s: build failed without a compiler error: %s" % (ext["crate"], pr["name"], _tail(out, 800)))
    return res


def run_ext_crate(ext, names, jobs, timeout_s):
    """Run the named harnesses of a downstream harness crate with Kani against /repo's working tree."""
    cdir = prepare_ext_crate(ext)
    out_json = os.path.join(cdir, "kani_out.json")
    cmd = ["cargo", "kani", "-Z", "function-contracts", "-Z", "stubbing", "-Z", "unstable-options", "--no-overflow-checks",
           "--output-format", "terse", "-j", str(jobs), "--export-json", out_json, "--harness-timeout", "900s"]
    for n in names:
        cmd += ["--harness", n]
    rc, out, secs = run(cmd, cwd=cdir, timeout=timeout_s)
    if not os.path.exists(out_json):
        blame = expansion_blame(cdir)
        if blame is not None:
            # every harness of this crate fails the same named obligation: "the expansion of to_dyn! compiles here"
            return ({n: {"harness": n, "status": "Failure", "duration_ms": 0, "n_checks": 1, "covers": [],
                         "failed_checks": [{"description": "to_dyn! expanded in this crate does not compile (the crate compiles "
                                            "with the single to_dyn! call compiled out)", "function": "to_dyn!", "location": None}],
                         "compile_error": blame} for n in names},
                    " ".join(shlex.quote(c) for c in cmd), cdir)
        raise Undecided("ext crate %s: cargo kani produced no result file rc=%s\n%s" % (ext["crate"], rc, _tail(out, 3000)))
    data = json.loads(read(out_json))
    res = {}
    for r in data["verification_results"]["results"]:
        checks = r.get("checks", [])
        res[r["harness_id"].split("::")[-1]] = {
            "harness": r["harness_id"], "status": r.get("status"), "duration_ms": r.get("duration_ms"), "n_checks": len(checks),
            "failed_checks": [{"description": c.get("description"), "function": c.get("function"), "location": c.get("location")}
                              for c in checks if c.get("status") == "Failure"],
            "covers": [{"description": c.get("description"), "status": c.get("status")} for c in checks if c.get("category") == "cover"],
        }
    return res, " ".join(shlex.quote(c) for c in cmd), cdir
