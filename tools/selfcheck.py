#!/usr/bin/env python3
"""setup_cmd: nothing to build (the driver is Python, harnesses are compiled per run); verify the tools exist."""
import shutil
import subprocess
import sys
ok = True
for tool in ("cargo", "verus", "rsync", "cvc5", "cbmc"):
    if not shutil.which(tool):
        print("missing tool:", tool)
        ok = False
try:
    out = subprocess.run(["cargo", "kani", "--version"], stdout=subprocess.PIPE, stderr=subprocess.STDOUT, text=True).stdout
    print(out.strip().splitlines()[0] if out.strip() else "cargo kani: no output")
except Exception as e:  # pragma: no cover
    print("cargo kani failed:", e)
    ok = False
sys.exit(0 if ok else 1)
