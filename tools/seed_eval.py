#!/usr/bin/env python3
"""Confirm a seeded change and run the property's check against it.

usage: seed_eval.py <seed dir containing patch.diff + demo.rs [+ NOTES.md]> <property id> <name> [--features F] [--tier quick]

Steps (all on scratch copies of /repo's HEAD under /var/tmp, removed afterwards):
  1. clean copy + demo            -> demo must PASS
  2. patched copy: existing tests -> must PASS (default features and --features devices); demo must FAIL
  3. ./check <ID> with VERIF_REPO=<patched copy>   -> record exit code and VIOLATION lines
Writes /verif/seeded/<name>/{patch.diff, demo.rs, NOTES.md, meta.json}.
"""
import json
import os
import shutil
import subprocess
import sys
import time

VERIF = os.path.dirname(os.path.dirname(os.path.abspath(__file__)))


def sh(cmd, cwd=None, timeout=3600, env=None):
    e = dict(os.environ)
    e["CARGO_NET_OFFLINE"] = "true"
    if env:
        e.update(env)
    p = subprocess.run(cmd, cwd=cwd, shell=isinstance(cmd, str), stdout=subprocess.PIPE, stderr=subprocess.STDOUT, text=True,
                       timeout=timeout, env=e, errors="replace")
    return p.returncode, p.stdout


def tests_ok(out):
    import re
    res = re.findall(r"test result: (\w+)\. (\d+) passed; (\d+) failed", out)
    return bool(res) and all(r[0] == "ok" for r in res), sum(int(r[1]) for r in res), sum(int(r[2]) for r in res)


def main():
    a = sys.argv[1:]
    seed_dir, prop, name = a[0], a[1], a[2]
    feats = a[a.index("--features") + 1] if "--features" in a else None
    demo_flags = a[a.index("--demo-flags") + 1] if "--demo-flags" in a else None
    notes = os.path.join(seed_dir, "NOTES.md")
    if demo_flags is None and os.path.exists(notes):
        import re
        m = re.search(r"(?m)^\W*DEMO-FLAGS:\s*(.+)$", open(notes).read())
        if m:
            f = m.group(1).replace("`", "").replace("cargo test", "").replace("--offline", "").replace("--test seed_demo", "").strip()
            demo_flags = f
    tier = a[a.index("--tier") + 1] if "--tier" in a else "quick"
    out_dir = os.path.join(VERIF, "seeded", name)
    os.makedirs(out_dir, exist_ok=True)
    for f in ("patch.diff", "demo.rs", "NOTES.md"):
        if os.path.exists(os.path.join(seed_dir, f)) and os.path.abspath(seed_dir) != os.path.abspath(out_dir):
            shutil.copy(os.path.join(seed_dir, f), os.path.join(out_dir, f))
    base = "/var/tmp/seedeval.%d" % os.getpid()
    clean, patched = base + ".clean", base + ".patched"
    meta = {"property": prop, "name": name, "ran_at": time.strftime("%Y-%m-%dT%H:%M:%SZ", time.gmtime()), "steps": {}}
    try:
        for d in (clean, patched):
            shutil.rmtree(d, ignore_errors=True)
            sh("git -C /repo worktree prune", timeout=60)
            os.makedirs(d)
            sh("git -C /repo archive HEAD | tar -x -C %s" % d)
        rc, out = sh(["git", "apply", "--whitespace=nowarn", os.path.join(out_dir, "patch.diff")], cwd=patched)
        if rc != 0:
            # not a git dir: use patch(1)
            rc, out = sh("patch -p1 < %s" % os.path.join(out_dir, "patch.diff"), cwd=patched)
        meta["steps"]["apply"] = {"rc": rc, "out": out[-500:]}
        if rc != 0:
            meta["confirmed"] = False
            return finish(out_dir, meta)
        dflags = demo_flags if demo_flags is not None else (("--features " + feats) if feats else "")
        # 1. demo on clean tree
        shutil.copy(os.path.join(out_dir, "demo.rs"), os.path.join(clean, "tests", "seed_demo.rs"))
        rc, out = sh("cargo test --offline %s --test seed_demo" % dflags, cwd=clean)
        ok, p, f = tests_ok(out)
        meta["steps"]["demo_on_clean"] = {"cmd": "cargo test --offline %s --test seed_demo" % dflags, "passed": ok, "out": out[-600:] if not ok else ""}
        # 2. existing tests on the patched tree
        rc, out = sh("cargo test --offline --no-fail-fast", cwd=patched)
        ok1, p1, f1 = tests_ok(out)
        meta["steps"]["existing_tests_default"] = {"passed": ok1, "n_passed": p1, "n_failed": f1, "out": out[-800:] if not ok1 else ""}
        rc, out = sh("cargo test --offline --no-fail-fast --features devices", cwd=patched)
        ok2, p2, f2 = tests_ok(out)
        meta["steps"]["existing_tests_devices"] = {"passed": ok2, "n_passed": p2, "n_failed": f2, "out": out[-800:] if not ok2 else ""}
        shutil.copy(os.path.join(out_dir, "demo.rs"), os.path.join(patched, "tests", "seed_demo.rs"))
        rc, out = sh("cargo test --offline %s --test seed_demo" % dflags, cwd=patched)
        okd, pd_, fd = tests_ok(out)
        meta["steps"]["demo_on_patched"] = {"fails": not okd, "out": out[-900:]}
        os.remove(os.path.join(patched, "tests", "seed_demo.rs"))
        meta["confirmed"] = bool(ok and ok1 and ok2 and not okd)
        # 3. the property's check against the patched tree
        shutil.rmtree(os.path.join(patched, "target"), ignore_errors=True)
        t0 = time.time()
        evd = base + ".evidence"
        os.makedirs(evd, exist_ok=True)
        rc, out = sh(["./check", prop, "--tier", tier], cwd=VERIF, env={"VERIF_REPO": patched, "VERIF_EVIDENCE_DIR": evd}, timeout=7200)
        shutil.rmtree(evd, ignore_errors=True)
        lines = [l for l in out.splitlines() if l.startswith(("VIOLATION", "UNDECIDED", "KNOWN-FINDING"))]
        meta["steps"]["check"] = {"cmd": "VERIF_REPO=<patched> ./check %s --tier %s" % (prop, tier), "exit": rc, "lines": lines[:12],
                                  "seconds": round(time.time() - t0, 1), "tail": out[-700:]}
        meta["detected"] = rc == 1
        # keep the replay files of the detection
        rdir = os.path.join(VERIF, "replays", prop)
        if rc == 1 and os.path.isdir(rdir):
            keep = os.path.join(out_dir, "replays")
            shutil.rmtree(keep, ignore_errors=True)
            shutil.copytree(rdir, keep)
    finally:
        shutil.rmtree(clean, ignore_errors=True)
        shutil.rmtree(patched, ignore_errors=True)
    return finish(out_dir, meta)


def finish(out_dir, meta):
    with open(os.path.join(out_dir, "meta.json"), "w") as f:
        json.dump(meta, f, indent=1)
        f.write("\n")
    print(json.dumps({k: meta.get(k) for k in ("name", "property", "confirmed", "detected")}))
    print("  check:", (meta["steps"].get("check") or {}).get("lines"))
    return 0


if __name__ == "__main__":
    sys.exit(main())
