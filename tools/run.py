#!/usr/bin/env python3
"""Driver:  ./check <ID> [--tier quick|thorough]      decide one property on /repo's current working tree
            ./check --replay <path>                    re-run one replay file against /repo
            ./check --list                             list obligations per property

Exit 0: every obligation of the property discharged (known findings are printed as KNOWN-FINDING lines).
Exit 1: an obligation was refuted; prints `VIOLATION property=<id> replay=<path>` (one line per refuted obligation).
Exit 2: undecided (lost anchor, unsupported construct, build failure, solver timeout/rlimit/OOM). Never an alarm.
"""
import argparse
import json
import os
import sys
import time

sys.path.insert(0, os.path.dirname(os.path.abspath(__file__)))
import common  # noqa: E402
import kani_engine as K  # noqa: E402
from common import VERIF, Undecided, log  # noqa: E402

try:
    import verus_engine as V  # noqa: E402
except ImportError:  # pragma: no cover
    V = None

PROPS = {}
for _l in open(os.path.join(VERIF, "properties.jsonl")):
    _p = json.loads(_l)
    PROPS[_p["id"]] = _p


def load_property_notes():
    p = os.path.join(VERIF, "contracts", "properties_meta.json")
    return json.loads(common.read(p)) if os.path.exists(p) else {}


def kani_obligations(prop, tier):
    mods = K.discover()
    obs = []
    for m in mods:
        for h in m["harnesses"]:
            if prop in h["props"] and (tier == "thorough" or h["tier"] == "quick"):
                cfgs = h["configs"] or [c for c in m["configs"] if c != "*"] or ["dev"]
                if "*" in m["configs"] and not h["configs"]:
                    cfgs = ["dev"]
                if tier == "quick" and m.get("quickconfigs") and not h["configs"]:
                    cfgs = [c for c in cfgs if c in m["quickconfigs"]]
                # //@ob also=<cfg,...>: additional configurations for this obligation only (the module is injected there too)
                extra = (h["meta"].get("also") or "").split(",")
                if tier == "thorough":
                    extra += (h["meta"].get("also_thorough") or "").split(",")
                for c in extra:
                    if c and c not in cfgs:
                        cfgs.append(c)
                for c in cfgs:
                    obs.append({"engine": "kani", "config": c, "harness": h["name"], "module": m["stem"],
                                "host": m["host"], "meta": h["meta"], "props": h["props"]})
    return mods, obs


def mods_for_config(mods, config):
    out = []
    for m in mods:
        if "*" in m["configs"] or config in m["configs"]:
            mm = dict(m)
            mm["configs"] = [config]
            out.append(mm)
    return out


def _run_kani_config(prop, tier, cfg, lst, mods, jobs, replay_dir, known_sites, records, violations, annotations, cmds, soft):
    scratch = common.new_scratch("k." + cfg)
    common.copy_repo(scratch)
    needed = {o["module"] for o in lst}
    cmods = [m for m in mods_for_config(mods, cfg) if m.get("always") or m["stem"] == "support"]
    # a module is injected wherever one of its obligations is scheduled (its own //@config list or an obligation's also=)
    for m in mods:
        if m["stem"] in needed and m["stem"] not in {x["stem"] for x in cmods}:
            mm = dict(m)
            mm["configs"] = [cfg]
            cmods.append(mm)
    annotations += K.annotate(scratch, cmods, cfg)
    # full harness paths: <host module path>::verif_<stem>::<name>
    full = {}
    for o in lst:
        full[_full_name(o)] = o
    timeout = 3600 if tier == "quick" else 4 * 3600
    # harnesses that need extra CBMC arguments (//@ob cbmc="...") run in their own invocation
    groups = {}
    for n, o in full.items():
        groups.setdefault(o["meta"].get("cbmc", ""), []).append(n)
    results, raw = {}, ""
    for cb, names in sorted(groups.items()):
        r1, raw1, cmd, data = K.run_harnesses(scratch, cfg, sorted(names), jobs, timeout,
                                              per_harness_timeout="600s" if tier == "quick" else "3600s", cbmc_args=cb or None)
        results.update(r1)
        raw += raw1
        cmds.append(cmd)
    missing = [n for n in full if n not in results]
    if missing:
        raise Undecided("kani did not run %d expected harnesses (renamed or filtered out?): %s" % (len(missing), missing[:5]))
    for name, o in sorted(full.items()):
        r = results[name]
        rec = {
            "name": "%s[%s]" % (o["harness"], cfg), "engine": "kani", "config": cfg, "harness": name,
            "function": o["meta"].get("fn"), "at": o["meta"].get("at"), "clause": o["meta"].get("clause"),
            "solver": r["solver"], "solver_s": r["solver_s"], "seconds": (r["duration_ms"] or 0) / 1000.0,
            "checks": r["n_checks"], "vccs": r["vccs"], "covers": r["covers"],
        }
        if "bounded" in o["meta"]:
            rec["bounded"] = o["meta"]["bounded"]          # a bounded stand-in: never counted as proved
        if "instance" in o["meta"]:
            rec["instance"] = o["meta"]["instance"]        # complete proof of ONE const-generic instantiation / size
        if o["meta"].get("witness"):
            # refutation witness of a recorded known finding: not an obligation that the property holds
            rec["witness"] = True
        expect_fail = o["meta"].get("expect") == "refuted"
        status = r["status"]
        bad_cover = [c for c in r["covers"] if not _cover_ok(c)]
        if status == "Success" and not r["undetermined"] and not bad_cover:
            rec["status"] = "discharged"
        elif status == "Success" and bad_cover:
            # vacuity guard tripped: an expected-reachable point is unreachable or vice versa
            rec["status"] = "refuted"
            rec["failed"] = [{"description": "cover %r is %s" % (c["description"], c["status"])} for c in bad_cover]
        elif status == "Failure":
            fc = r["failed_checks"]
            only_unwind = fc and all("unwinding assertion" in (c["description"] or "") for c in fc)
            if only_unwind or (not fc and r["undetermined"]):
                soft.append("harness %s: unwinding bound / undetermined checks: %s" % (name, fc or r["undetermined"]))
                rec["status"] = "undecided"
                records.append(rec)
                continue
            if not fc and r.get("should_panic") and "timed out" not in raw and not r["undetermined"]:
                # a #[kani::should_panic] harness in which nothing panicked: the "always panics" obligation is refuted
                fc = [{"description": "expected a panic (should_panic) but no execution panics", "function": name}]
            if not fc:
                soft.append("harness %s failed without a failed check (timeout / solver error?)\n%s" % (name, raw[-1500:]))
                rec["status"] = "undecided"
                records.append(rec)
                continue
            rec["status"] = "refuted"
            rec["failed"] = fc
        else:
            soft.append("harness %s: status %r undetermined=%s" % (name, status, r["undetermined"]))
            rec["status"] = "undecided"
            records.append(rec)
            continue
        if rec["status"] == "refuted":
            site = o["harness"]
            pb = None
            if status == "Failure" and site in known_sites and o["meta"].get("witness"):
                pb = {"generated": False, "note": "witness of a recorded known finding: not replayed"}
            elif status == "Failure":
                log("replaying counterexample of %s natively" % name)
                pb = K.playback(scratch, cfg, name, o["module"] + ".rs", o["meta"].get("cbmc"))
            rp = os.path.join(replay_dir, "%s.%s.json" % (o["harness"], cfg))
            common.write_json(rp, {
                "property": prop, "obligation": rec["name"], "engine": "kani", "config": cfg, "harness": name,
                "harness_module": o["module"], "function": rec["function"], "clause": rec["clause"],
                "failed_checks": rec["failed"], "repo_head": common.repo_head(),
                "playback": pb,
                "confirmed_on_real_code": bool(pb and pb.get("native_failed")),
            })
            rec["replay"] = rp
            v = {"site": site, "replay": rp, "known": site in known_sites,
                 "no_input": not (pb and pb.get("native_failed")), "rec": rec}
            violations.append(v)
        records.append(rec)


def run_kani(prop, tier, obs, mods, jobs, replay_dir, known_sites):
    """Returns obligation records, violation records, annotations, commands and the list of undecided parts.  A
    configuration that does not build, or a harness that times out, makes that part undecided; the other configurations
    and harnesses are still run and reported (a refutation found anywhere stands)."""
    records, violations, annotations = [], [], []
    soft = []
    by_cfg = {}
    for o in obs:
        by_cfg.setdefault(o["config"], []).append(o)
    cmds = []
    for cfg, lst in sorted(by_cfg.items()):
        try:
            _run_kani_config(prop, tier, cfg, lst, mods, jobs, replay_dir, known_sites, records, violations, annotations, cmds, soft)
        except Undecided as u:
            soft.append("config %s: %s" % (cfg, u))
    return records, violations, annotations, cmds, soft


def run_ext(prop, tier, jobs, replay_dir, known_sites, only=None):
    """Harness crates outside rrtk (downstream view of the public macros)."""
    records, violations, cmds = [], [], []
    for ext in K.discover_ext():
        prs = [q for q in ext.get("probes", []) if prop in q["props"] and (tier == "thorough" or q["tier"] == "quick")
               and (not only or only in q["name"])]
        if prs:
            pres = K.run_ext_probes(ext, prs)
            cmds.append("cargo check --offline [--cfg <probe>]  (in kani/ext/%s)" % ext["crate"])
            for q in prs:
                r = pres[q["name"]]
                rec = {"name": "%s[ext:%s]" % (q["name"], ext["crate"]), "engine": "rustc", "config": "ext:" + ext["crate"], "harness": q["name"],
                       "function": "(API surface of rrtk::reference)", "at": "src/reference.rs", "clause": q["meta"].get("clause"),
                       "seconds": 0.0, "checks": 1, "covers": [], "solver": "rustc type checker",
                       "status": "discharged" if r["rejected"] else "refuted", "rustc_errors": r["errors"]}
                if not r["rejected"]:
                    rec["failed"] = [{"description": "the probe compiles: safe code can write this expression", "function": q["name"]}]
                    rp = os.path.join(replay_dir, "%s.ext.json" % q["name"])
                    common.write_json(rp, {"property": prop, "obligation": rec["name"], "engine": "kani-ext", "crate": ext["crate"],
                                           "probe": q["name"], "probe_cfg": q["cfg"], "failed_checks": rec["failed"],
                                           "confirmed_on_real_code": True, "cmd": r["cmd"], "output_tail": r["output_tail"],
                                           "note": "the witness is the probe program itself (kani/ext/%s/src/lib.rs, cfg %s): it type-checks against this tree" % (ext["crate"], q["cfg"])})
                    rec["replay"] = rp
                    violations.append({"site": q["name"], "replay": rp, "known": q["name"] in known_sites, "no_input": True, "rec": rec})
                records.append(rec)
        hs = [h for h in ext["harnesses"] if prop in h["props"] and (tier == "thorough" or h["tier"] == "quick")
              and (not only or only in h["name"])]
        if not hs:
            continue
        res, cmd, cdir = K.run_ext_crate(ext, [h["name"] for h in hs], jobs, 3600)
        cmds.append(cmd)
        for h in hs:
            r = res.get(h["name"])
            if r is None:
                raise Undecided("ext crate %s: harness %s did not run" % (ext["crate"], h["name"]))
            rec = {"name": "%s[ext:%s]" % (h["name"], ext["crate"]), "engine": "kani", "config": "ext:" + ext["crate"], "harness": r["harness"],
                   "function": h["meta"].get("fn"), "at": h["meta"].get("at"), "clause": h["meta"].get("clause"),
                   "seconds": (r["duration_ms"] or 0) / 1000.0, "checks": r["n_checks"], "covers": r["covers"], "solver": "cadical"}
            bad_cover = [c for c in r["covers"] if not _cover_ok(c)]
            if r["status"] == "Success" and not bad_cover:
                rec["status"] = "discharged"
            elif r["status"] == "Failure" and r["failed_checks"]:
                rec["status"] = "refuted"
                rec["failed"] = r["failed_checks"]
            elif bad_cover:
                rec["status"] = "refuted"
                rec["failed"] = [{"description": "cover %r is %s" % (c["description"], c["status"])} for c in bad_cover]
            else:
                raise Undecided("ext harness %s: status %r without failed checks" % (h["name"], r["status"]))
            if rec["status"] == "refuted":
                # native confirmation: the crate carries a #[test] twin <name>_native running the same body with concrete values
                rp = os.path.join(replay_dir, "%s.ext.json" % h["name"])
                if r.get("compile_error"):
                    # the failed obligation is "the expansion compiles in this calling crate": rustc is the checker, there is
                    # no input to replay; the replay file carries the compiler's diagnostics
                    common.write_json(rp, {"property": prop, "obligation": rec["name"], "engine": "kani-ext", "crate": ext["crate"],
                                           "failed_checks": rec["failed"], "compile_error": r["compile_error"],
                                           "confirmed_on_real_code": True,
                                           "note": "no failing input exists: the calling crate does not compile; re-run "
                                                   "`cargo check --tests` in kani/ext/%s with RRTK_PATH pointing at the tree" % ext["crate"]})
                    rec["replay"] = rp
                    violations.append({"site": h["name"], "replay": rp, "known": h["name"] in known_sites, "no_input": True, "rec": rec})
                    records.append(rec)
                    continue
                rc, out, _ = common.run(["cargo", "test", "--offline", "--", h["name"] + "_native"], cwd=cdir, timeout=1800)
                native_failed = "FAILED" in out and "test result: FAILED" in out
                common.write_json(rp, {"property": prop, "obligation": rec["name"], "engine": "kani-ext", "crate": ext["crate"],
                                       "failed_checks": rec["failed"], "native_twin": h["name"] + "_native",
                                       "native_failed": native_failed, "native_output_tail": out[-1500:],
                                       "confirmed_on_real_code": native_failed})
                rec["replay"] = rp
                violations.append({"site": h["name"], "replay": rp, "known": h["name"] in known_sites, "no_input": not native_failed, "rec": rec})
            records.append(rec)
    return records, violations, cmds


def _cover_ok(c):
    d = (c.get("description") or "")
    st = str(c.get("status", "")).upper()
    if d.startswith("unreach:"):
        return st in ("UNSATISFIABLE", "UNREACHABLE", "UNCOVERED")
    return st in ("SATISFIED", "COVERED")


def _full_name(o):
    host = o["host"]
    inline = None
    if "::" in host:
        host, inline = host.split("::", 1)
    p = host[len("src/"):-len(".rs")]
    parts = [] if p == "lib" else p.split("/")
    if inline:
        parts.append(inline)
    parts.append("verif_" + o["module"])
    parts.append(o["harness"])
    return "::".join(parts)


def main():
    ap = argparse.ArgumentParser()
    ap.add_argument("prop", nargs="?")
    ap.add_argument("--tier", default=os.environ.get("VERIF_TIER", "quick"), choices=["quick", "thorough"])
    ap.add_argument("--replay")
    ap.add_argument("--list", action="store_true")
    ap.add_argument("--jobs", type=int, default=int(os.environ.get("VERIF_JOBS", "0")) or (os.cpu_count() or 4))
    ap.add_argument("--only", help="substring filter on obligation names (debugging; evidence is not written)")
    a = ap.parse_args()
    seed = int(os.environ.get("VERIF_SEED", "0") or 0)
    if a.replay:
        import replay
        sys.exit(replay.main(a.replay))
    if a.list:
        for pid in sorted(PROPS):
            _m, obs = kani_obligations(pid, "thorough")
            vobs = V.obligations(pid, "thorough") if V else []
            print(pid, len(obs), "kani +", len(vobs), "verus")
        return 0
    prop = a.prop
    if prop not in PROPS:
        print("unknown property", prop, file=sys.stderr)
        return 2
    t0 = time.time()
    known = [k for k in common.load_known_findings() if k["property"] == prop]
    known_sites = {k["site"] for k in known}
    replay_dir = os.path.join(VERIF, "replays", prop)
    os.makedirs(replay_dir, exist_ok=True)
    for f in os.listdir(replay_dir):
        if f.endswith(".json"):
            os.remove(os.path.join(replay_dir, f))
    undecided = []
    records, violations, annotations, cmds, vinfo = [], [], [], [], None
    try:
        mods, kobs = kani_obligations(prop, a.tier)
        vobs = V.obligations(prop, a.tier) if V else []
        if a.only:
            kobs = [o for o in kobs if a.only in o["harness"]]
            vobs = [o for o in vobs if a.only in o["unit"]]
        if not kobs and not vobs and not any(prop in h["props"] for e in K.discover_ext() for h in e["harnesses"]):
            raise Undecided("no obligations registered for %s (vacuity guard)" % prop)
    except Undecided as u:
        log("UNDECIDED %s: %s" % (prop, u))
        print("UNDECIDED property=%s reason=%s" % (prop, str(u).splitlines()[0][:300]))
        return 2
    # each engine is run even if another one cannot decide: a refutation found by one engine stands
    if kobs:
        try:
            r, v, an, c, soft = run_kani(prop, a.tier, kobs, mods, a.jobs, replay_dir, known_sites)
            undecided += ["kani: %s" % x for x in soft]
            records += r
            violations += v
            annotations += an
            cmds += c
        except Undecided as u:
            undecided.append("kani: %s" % u)
    try:
        xr, xv, xc = run_ext(prop, a.tier, a.jobs, replay_dir, known_sites, a.only)
        records += xr
        violations += xv
        cmds += xc
    except Undecided as u:
        undecided.append("kani-ext: %s" % u)
    if vobs:
        try:
            r, v, vinfo, c = V.run(prop, a.tier, vobs, a.jobs, replay_dir, known_sites)
            records += r
            violations += v
            cmds += c
            undecided += vinfo.get("undecided", [])
        except Undecided as u:
            undecided.append("verus: %s" % u)
    if not a.only:
        # configuration dependence that no contract covers: every such site for C19 (whose argument is compositional over
        # exactly the baseline sites); for the other properties the sites in the files their obligations are anchored in
        # (the obligations were proved in the configurations listed in the evidence, not in the one the new site selects)
        try:
            files = set(PROPS[prop].get("anchors", {}).get("files", []))
            for r in records:
                at = (r.get("at") or "").split(":")[0]
                if at:
                    files.add(at)
            for st in cfg_sites_not_in_baseline():
                if prop == "C19" or st["file"] in files:
                    undecided.append("configuration-dependent site not under contract (not in contracts/c19_cfg_sites.json): %s:%d  %s  ->  %s"
                                     % (st["file"], st["line"], st["cfg"], st["target"][:120]))
        except Undecided as u:
            undecided.append("cfg sites: %s" % u)
    expected = _expected_count(prop, a.tier)
    if not a.only and not undecided and expected and len(records) < expected:
        undecided.append("obligation count %d below the recorded minimum %d for %s/%s (vacuity guard)" % (len(records), expected, prop, a.tier))
    wall = time.time() - t0
    new = [v for v in violations if not v["known"]]
    for v in violations:
        if v["known"]:
            k = [k for k in known if k["site"] == v["site"]][0]
            print("KNOWN-FINDING: property=%s site=%s %s" % (prop, v["site"], k["text"]))
    if not a.only and not undecided:
        write_evidence(prop, a.tier, seed, records, violations, annotations, cmds, vinfo, wall)
    for v in new:
        print("VIOLATION property=%s replay=%s%s" % (prop, v["replay"], " no-failing-input-found" if v["no_input"] else ""))
        log("  refuted obligation %s: %s" % (v["rec"]["name"], json.dumps(v["rec"].get("failed"))[:600]))
    for u in undecided:
        log("UNDECIDED part of %s: %s" % (prop, str(u)[:1500]))
    if undecided and not new:
        print("UNDECIDED property=%s reason=%s" % (prop, str(undecided[0]).splitlines()[0][:300]))
    log("%s: %d obligations, %d discharged, %d refuted (%d known) in %.1fs" % (
        prop, len(records), sum(1 for r in records if r["status"] == "discharged"), len(violations),
        len(violations) - len(new), wall))
    return 1 if new else (2 if undecided else 0)


def cfg_scan():
    """C19 step (1): every place where the crate's text depends on the configuration, from /repo's current tree."""
    import re
    out = {"unit_checking": [], "float_backend_or_std_value": [], "item_availability_only": []}
    src = os.path.join(common.REPO, "src")
    for root, _d, files in os.walk(src):
        for f in sorted(files):
            if not f.endswith(".rs"):
                continue
            rel = os.path.relpath(os.path.join(root, f), common.REPO)
            for i, line in enumerate(common.read(os.path.join(root, f)).splitlines(), 1):
                if "cfg" not in line or not re.search(r"#!?\[cfg|cfg!\(", line):
                    continue
                t = line.strip()
                if "dim_check" in t or "debug_assertions" in t:
                    out["unit_checking"].append("%s:%d" % (rel, i))
                elif rel.endswith("enhanced_float.rs") or (rel.endswith("dimensions.rs") and 'feature = "std"' in t):
                    out["float_backend_or_std_value"].append("%s:%d" % (rel, i))
                else:
                    out["item_availability_only"].append("%s:%d" % (rel, i))
    out["note"] = ("unit_checking and float_backend_or_std_value sites are the only ones that can change a computed value or a panic; "
                   "they lie in Unit/Quantity/State/Time conversions (re-proved per configuration by the c19_* harnesses) and in powf "
                   "(excluded by the property); item_availability_only sites switch whole items on or off (alloc/std/devices)")
    return out


def cfg_sites():
    """Line-number independent identity of every configuration-dependent site of the crate: (file, the cfg attribute or
    cfg!() line, the first following line that is not an attribute or comment).  C19's argument is compositional over
    exactly these sites (each value-affecting one is under a per-configuration contract); a site that is not in the
    committed baseline contracts/c19_cfg_sites.json is configuration dependence NOT under contract."""
    import re
    sites = []
    src = os.path.join(common.REPO, "src")
    for root, _d, files in os.walk(src):
        for f in sorted(files):
            if not f.endswith(".rs"):
                continue
            rel = os.path.relpath(os.path.join(root, f), common.REPO)
            lines = common.read(os.path.join(root, f)).splitlines()
            for i, line in enumerate(lines):
                if "cfg" not in line or not re.search(r"#!?\[cfg|cfg!\(", line):
                    continue
                if line.strip().startswith("//"):
                    continue
                # an attribute may span several lines: take it whole (balanced brackets), the target is what follows it
                attr = line
                j = i + 1
                if re.search(r"#!?\[cfg", line):
                    depth = line.count("[") + line.count("(") - line.count("]") - line.count(")")
                    while depth > 0 and j < len(lines):
                        attr += " " + lines[j]
                        depth += lines[j].count("[") + lines[j].count("(") - lines[j].count("]") - lines[j].count(")")
                        j += 1
                while j < len(lines) and (lines[j].strip().startswith(("#[", "//", "#![")) or not lines[j].strip()):
                    if re.search(r"#!?\[", lines[j]):
                        depth = lines[j].count("[") + lines[j].count("(") - lines[j].count("]") - lines[j].count(")")
                        j += 1
                        while depth > 0 and j < len(lines):
                            depth += lines[j].count("[") + lines[j].count("(") - lines[j].count("]") - lines[j].count(")")
                            j += 1
                        continue
                    j += 1
                target = " ".join(lines[j].split()) if j < len(lines) else ""
                sites.append({"file": rel, "cfg": " ".join(attr.split()), "target": target, "line": i + 1})
            # constructs whose behaviour depends on the build configuration without a cfg attribute: debug assertions and
            # calls of the crate's cfg-dependent unit predicates; identified by their text and the enclosing fn header
            cur_fn = ""
            for i, line in enumerate(lines):
                t = line.strip()
                if t.startswith("//"):
                    continue
                m = re.match(r"(?:pub(?:\([a-z]+\))?\s+)?(?:const\s+)?(?:unsafe\s+)?fn\s+\w+", t)
                if m:
                    cur_fn = " ".join(t.split())[:160]
                if re.search(r"\bdebug_assert(?:_eq|_ne)?!\s*\(|\.eq_assume_(?:true|false)\s*\(|\.assert_eq_assume_(?:ok|not_ok)\s*\(|\.eq_assume_(?:ok|not_ok)\s*\(", t):
                    if re.match(r"(?:pub\s+)?(?:const\s+)?fn\s+(?:eq_assume|assert_eq_assume)", t):
                        continue
                    sites.append({"file": rel, "cfg": "use: " + " ".join(t.split()), "target": cur_fn, "line": i + 1})
    return sites


def cfg_sites_not_in_baseline():
    p = os.path.join(VERIF, "contracts", "c19_cfg_sites.json")
    if not os.path.exists(p):
        raise Undecided("contracts/c19_cfg_sites.json missing")
    base = {(b["file"], b["cfg"], b["target"]) for b in json.loads(common.read(p))}
    return [s for s in cfg_sites() if (s["file"], s["cfg"], s["target"]) not in base]


def _expected_count(prop, tier):
    p = os.path.join(VERIF, "contracts", "expected_counts.json")
    if not os.path.exists(p):
        return 0
    return json.loads(common.read(p)).get(prop, {}).get(tier, 0)


def write_evidence(prop, tier, seed, records, violations, annotations, cmds, vinfo, wall):
    notes = load_property_notes().get(prop, {})
    known_names = {v["rec"]["name"] for v in violations if v["known"]}
    # obligations = what is claimed to hold; refutation witnesses and recorded known findings are listed separately
    proved = [r for r in records if not r.get("witness") and r["name"] not in known_names and not r.get("bounded")]
    discharged = [r for r in proved if r["status"] == "discharged"]
    fns = sorted({r["function"] for r in records if r.get("function")})
    trusted = list(notes.get("trusted_base", []))
    trusted += [
        "Kani 0.68.0 MIR->goto translation and its models of core/alloc (RefCell, Rc, Arc, Mutex, VecDeque); CBMC 6.11; CaDiCaL/Kissat/cvc5 1.0.3",
        "sequential execution only (Kani has no threads)",
        "--no-overflow-checks: Kani's own float NaN/inf and arithmetic-overflow instrumentation is off; rustc's debug overflow panics remain checked as assertions",
    ] if any(r["engine"] == "kani" for r in records) else []
    if vinfo:
        trusted += vinfo.get("trusted_base", [])
    samples = []
    for r in records[:6]:
        samples.append({k: r.get(k) for k in ("name", "engine", "function", "at", "clause", "status", "solver", "seconds")})
    cov = {
        "obligations": len(proved),
        "discharged": len(discharged),
        "checker_cmd": " ;; ".join(cmds)[:1500],
        "trusted_base": trusted,
        "samples": samples,
        "functions_under_contract": fns,
        "obligation_records": records,
        "bounded_standins": [{"name": r["name"], "bound": r["bounded"], "status": r["status"]} for r in records if r.get("bounded")],
        "bounded_standins_note": "bounded stand-ins are run and must pass, but are NOT counted in obligations/discharged",
        "per_instance_proofs": [{"name": r["name"], "instance": r["instance"]} for r in proved if r.get("instance")],
        "per_instance_note": "complete proofs (all loops fully unrolled with unwinding assertions) of one const-generic instantiation or universe size each; counted, but the claim is per instance, not for all sizes",
        "solver_time_s": round(sum((r.get("solver_s") or 0) for r in records), 3),
        "cbmc_checks_total": sum((r.get("checks") or 0) for r in records if r["engine"] == "kani"),
        "lines_added_to_scratch_copy": annotations,
        "not_decided_clauses": notes.get("not_decided_clauses", []),
        "known_findings_reported": [v["site"] for v in violations if v["known"]],
        "refuted": [{"obligation": v["rec"]["name"], "replay": v["replay"]} for v in violations],
        "repo_head": common.repo_head(), "repo_dirty": common.repo_dirty(),
        "explanation": notes.get("explanation", ""),
    }
    if prop == "C19":
        cov["cfg_scan"] = cfg_scan()
    if vinfo:
        cov["verus"] = vinfo
    ev = {
        "property_id": prop, "tier": tier, "seed": seed, "level": "proof",
        "coverage": cov,
        "assumptions": notes.get("assumptions", []) + (vinfo.get("assumptions", []) if vinfo else []),
        "wall_s": round(wall, 2),
        "violations": len([v for v in violations if not v["known"]]),
    }
    # (runs against a deliberately modified tree, e.g. tools/seed_eval.py, redirect their evidence elsewhere)
    common.write_json(os.path.join(os.environ.get("VERIF_EVIDENCE_DIR") or os.path.join(VERIF, "evidence"), "%s.json" % prop), ev)


if __name__ == "__main__":
    sys.exit(main())
