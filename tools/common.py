"""Shared helpers for the rrtk contract-verification driver."""
import atexit
import json
import os
import re
import shutil
import subprocess
import sys
import time

VERIF = os.path.dirname(os.path.dirname(os.path.abspath(__file__)))
REPO = os.environ.get("VERIF_REPO", "/repo")
SCRATCH_BASE = os.environ.get("VERIF_SCRATCH", "/var/tmp")

OFFLINE_ENV = {
    "CARGO_NET_OFFLINE": "true",
    "GOPROXY": "off",
    "PIP_NO_INDEX": "1",
}


class Undecided(Exception):
    """Raised when the machinery cannot decide (lost anchor, unsupported construct,
    solver timeout, build failure). Never a violation: the driver exits 2."""


def env():
    e = dict(os.environ)
    e.update(OFFLINE_ENV)
    # the repository's own toolchain must not be forced onto kani / verus
    e.pop("RUSTUP_TOOLCHAIN", None)
    e.pop("RUSTFLAGS", None)
    return e


_scratch_dirs = []


def _cleanup():
    for d in _scratch_dirs:
        shutil.rmtree(d, ignore_errors=True)


atexit.register(_cleanup)


def new_scratch(tag):
    d = os.path.join(SCRATCH_BASE, "rrtk-verif.%d.%s" % (os.getpid(), tag))
    shutil.rmtree(d, ignore_errors=True)
    os.makedirs(d)
    if not os.environ.get("VERIF_KEEP_SCRATCH"):
        _scratch_dirs.append(d)
    return d


def copy_repo(dst):
    """Copy /repo's current working tree (not HEAD) without build output or git data."""
    subprocess.check_call(
        ["rsync", "-a", "--delete", "--exclude", "/target", "--exclude", "/.git", REPO + "/", dst + "/"]
    )


def run(cmd, cwd=None, timeout=None, extra_env=None):
    """Run a command in its own process group; on timeout the whole group is killed (cargo-kani leaves cbmc
    grandchildren behind otherwise)."""
    import signal
    e = env()
    if extra_env:
        e.update(extra_env)
    t0 = time.time()
    p = subprocess.Popen(cmd, cwd=cwd, env=e, stdout=subprocess.PIPE, stderr=subprocess.STDOUT, text=True, errors="replace",
                         start_new_session=True)
    try:
        out, _ = p.communicate(timeout=timeout)
        return p.returncode, out, time.time() - t0
    except subprocess.TimeoutExpired:
        try:
            os.killpg(p.pid, signal.SIGKILL)
        except Exception:
            p.kill()
        try:
            out, _ = p.communicate(timeout=30)
        except Exception:
            out = ""
        return -9, (out or "") + "\n[verif] TIMEOUT after %ss\n" % timeout, time.time() - t0


def log(*a):
    print("[verif]", *a, file=sys.stderr, flush=True)


def read(path):
    with open(path, encoding="utf-8") as f:
        return f.read()


def write(path, s):
    os.makedirs(os.path.dirname(path), exist_ok=True)
    with open(path, "w", encoding="utf-8") as f:
        f.write(s)


def write_json(path, obj):
    write(path, json.dumps(obj, indent=1, sort_keys=False) + "\n")


def repo_head():
    try:
        return subprocess.check_output(["git", "-C", REPO, "rev-parse", "--short", "HEAD"], text=True, stderr=subprocess.DEVNULL).strip()
    except Exception:
        return "unknown"


def repo_dirty():
    try:
        return bool(subprocess.check_output(["git", "-C", REPO, "status", "--porcelain", "--", "src", "Cargo.toml"], text=True, stderr=subprocess.DEVNULL).strip())
    except Exception:
        return False


def norm_ws(s):
    return re.sub(r"\s+", " ", s).strip()


def match_brace(text, open_idx):
    """Index of the brace matching text[open_idx] == '{', skipping strings, chars, comments."""
    assert text[open_idx] == "{"
    depth = 0
    i = open_idx
    n = len(text)
    while i < n:
        c = text[i]
        if c == "/" and text.startswith("//", i):
            j = text.find("\n", i)
            i = n if j < 0 else j
            continue
        if c == "/" and text.startswith("/*", i):
            j = text.find("*/", i + 2)
            i = n if j < 0 else j + 2
            continue
        if c == '"':
            i += 1
            while i < n and text[i] != '"':
                if text[i] == "\\":
                    i += 1
                i += 1
            i += 1
            continue
        if c == "'":
            # char literal or lifetime
            m = re.match(r"'(\\.|[^\\'])'", text[i:])
            if m:
                i += m.end()
                continue
            i += 1
            continue
        if c == "{":
            depth += 1
        elif c == "}":
            depth -= 1
            if depth == 0:
                return i
        i += 1
    raise Undecided("unbalanced braces")


def load_known_findings():
    """known_findings.txt: lines 'known: property=<id> site=<obligation-or-harness> <text>' and
    'fixed: property=<id> <commit> <text>'. Only 'known:' lines suppress anything."""
    path = os.path.join(VERIF, "known_findings.txt")
    known = []
    if os.path.exists(path):
        for line in read(path).splitlines():
            line = line.strip()
            m = re.match(r"known:\s+property=(\S+)\s+site=(\S+)\s+(.*)$", line)
            if m:
                known.append({"property": m.group(1), "site": m.group(2), "text": m.group(3)})
    return known
