//@host src/streams/flow.rs
//@config dev
// C02: `IfStream` and `IfElseStream` (FreezeStream is stateful and belongs to C05).  Condition: `Scripted<bool>`,
// data inputs: `Scripted<Tok>`, all outputs fully symbolic.
#![allow(unused_imports, dead_code)]
use super::*;
use crate::verif_support::*;
use crate::*;

type O = Output<Tok, Er>;
type OB = Output<bool, Er>;

/// Documented outcome of `IfStream`: "propagates its input if a Getter<bool,_> returns Ok(Some(true)), otherwise
/// returns Ok(None)"; the condition's error is returned unchanged (statement: earliest input first).  An absent
/// condition counts as false.  The propagated output is the input's output verbatim (error, absent or present with
/// its own timestamp: the condition selects, it does not contribute, C03).
fn spec_if(condition: OB, input: O) -> O {
    match condition {
        Err(e) => Err(e),
        Ok(Some(c)) if c.value => input,
        Ok(Some(_)) => Ok(None),
        Ok(None) => Ok(None),
    }
}
/// Documented outcome of `IfElseStream`: "returns the output of one input if a Getter<bool,_> returns
/// Ok(Some(true)) and another if it returns Ok(Some(false)); returns Ok(None) if the Getter<bool,_> does";
/// the condition's error is returned unchanged.
fn spec_if_else(condition: OB, when_true: O, when_false: O) -> O {
    match condition {
        Err(e) => Err(e),
        Ok(None) => Ok(None),
        Ok(Some(c)) => {
            if c.value {
                when_true
            } else {
                when_false
            }
        }
    }
}

//@ob fn="<IfStream<T,GC,GI,E> as Getter<T,E>>::get" at=src/streams/flow.rs:29 prop=C02,C03 clause="get()==spec for every condition category x input category: condition error returned unchanged; Some(true) => the input's output verbatim (its error, absent, or datum with the input's own timestamp and value); Some(false) and absent condition => Ok(None) whatever the input; second get() equal, inputs unchanged"
#[kani::proof]
fn c02_if_spec() {
    let mut c = Scripted::<bool>::new(any_output());
    let mut i = Scripted::<Tok>::new(any_output());
    let (c0, i0) = (c.out, i.out);
    let stream = IfStream::<Tok, Scripted<bool>, Scripted<Tok>, Er>::new(rf(&mut c), rf(&mut i));
    let r1 = stream.get();
    assert!(r1 == spec_if(c0, i0));
    let r2 = stream.get();
    assert!(r2 == r1);
    assert!(c.out == c0 && i.out == i0 && c.updates == 0 && i.updates == 0);
    kani::cover!(c0 == Ok(None) && i0.is_err() && r1 == Ok(None), "absent condition hides an input error");
    kani::cover!(matches!(c0, Ok(Some(d)) if d.value) && i0.is_err() && r1 == i0, "true condition propagates the input's error");
    kani::cover!(matches!(c0, Ok(Some(d)) if d.value) && matches!(r1, Ok(Some(_))), "true condition propagates a datum");
    kani::cover!(matches!(c0, Ok(Some(d)) if !d.value), "false condition");
    kani::cover!(c0.is_err(), "condition error");
    reach!();
}

//@ob fn="<IfElseStream<T,GC,GT,GF,E> as Getter<T,E>>::get" at=src/streams/flow.rs:94 prop=C02,C03 clause="get()==spec for every condition category x both input categories: condition error returned unchanged; absent condition => Ok(None); Some(true) => the true input's output verbatim; Some(false) => the false input's output verbatim (error, absent or datum with its own timestamp); the unselected input never influences the result; second get() equal, inputs unchanged"
#[kani::proof]
fn c02_if_else_spec() {
    let mut c = Scripted::<bool>::new(any_output());
    let mut t = Scripted::<Tok>::new(any_output());
    let mut f = Scripted::<Tok>::new(any_output());
    let (c0, t0, f0) = (c.out, t.out, f.out);
    let stream = IfElseStream::<Tok, Scripted<bool>, Scripted<Tok>, Scripted<Tok>, Er>::new(rf(&mut c), rf(&mut t), rf(&mut f));
    let r1 = stream.get();
    assert!(r1 == spec_if_else(c0, t0, f0));
    let r2 = stream.get();
    assert!(r2 == r1);
    assert!(c.out == c0 && t.out == t0 && f.out == f0 && c.updates == 0 && t.updates == 0 && f.updates == 0);
    kani::cover!(c0 == Ok(None) && t0.is_err() && f0.is_err() && r1 == Ok(None), "absent condition hides input errors");
    kani::cover!(matches!(c0, Ok(Some(d)) if d.value) && t0 != f0 && r1 == t0, "true selects the true input");
    kani::cover!(matches!(c0, Ok(Some(d)) if !d.value) && t0 != f0 && r1 == f0, "false selects the false input");
    kani::cover!(c0.is_err(), "condition error");
    reach!();
}
