//@host src/devices.rs
//@config dev,rel_default
// C16, first sentence, the parts not covered elsewhere:
//   (1) n-ary sum / product streams, all arities 1..8, all presence patterns: c02_math.rs (c02_sum_stream_*,
//       c02_product_stream_*), cross-listed to C16 there (result == fold of the present inputs for every content of
//       the unwritten MaybeUninit slots, Kani's bounds / pointer checks on).
//   (2) terminal state read for the four own/partner combinations: c09_terminal.rs (c09_state_read_*), cross-listed.
//   (3) the axle constructor and the axle index accessor: HERE.
// No `-Z uninit-checks` (crashes the Kani compiler on this crate, DESIGN T13): CBMC gives `MaybeUninit::uninit()`
// memory nondeterministic contents, so asserting the complete observable content of every constructed terminal for
// all executions is the statement "the result does not depend on unwritten memory"; out-of-bounds accesses and
// invalid pointers are Kani's default memory-safety checks.
#![allow(unused_imports, dead_code)]
use crate::devices::*;
use crate::verif_support::*;
use crate::*;

/// Complete observable content of a freshly constructed terminal cell.
fn is_fresh(r: &RefCell<Terminal<'_, Er>>) -> bool {
    // the RefCell's borrow flag is initialised to "not borrowed"
    if r.try_borrow_mut().is_err() {
        return false;
    }
    let t = r.borrow();
    let s: Output<State, Er> = t.get();
    let c: Output<Command, Er> = t.get();
    let d: Output<TerminalData, Er> = t.get();
    t.other.is_none()
        && t.settable_data_state.last_request.is_none()
        && t.settable_data_state.following.is_none()
        && t.settable_data_command.last_request.is_none()
        && t.settable_data_command.following.is_none()
        && matches!(s, Ok(None))
        && matches!(c, Ok(None))
        && matches!(d, Ok(None))
}

fn axle_new_case<const N: usize>() {
    let ax = Axle::<N, Er>::new();
    let mut i = 0;
    while i < N {
        let r = ax.get_terminal(i);
        // the accessor hands out the i-th element of the axle's own array (in range, no aliasing between indices)
        assert!(core::ptr::eq(r, &ax.inputs[i]));
        // written by the constructor loop: unlinked, empty slots, following nothing, not borrowed
        assert!(is_fresh(r));
        i += 1;
    }
    // distinct indices are distinct cells: borrowing one mutably leaves the others free
    if N >= 2 {
        let g = ax.get_terminal(0).borrow_mut();
        assert!(ax.get_terminal(N - 1).try_borrow_mut().is_ok());
        drop(g);
    }
    reach!();
}

macro_rules! axle_new {
    ($name:ident, $n:literal, $unw:literal) => {
        #[kani::proof]
        #[kani::unwind($unw)]
        fn $name() {
            axle_new_case::<$n>();
        }
    };
}

//@ob fn="Axle::new" at=src/devices.rs:255 instance="N=0" clause="N=0: constructs without touching memory out of range (empty MaybeUninit array read out as empty array); no panic"
axle_new!(c16_axle_new_n0, 0, 3);
//@ob fn="Axle::new" at=src/devices.rs:255 instance="N=1" clause="N=1: every one of the N terminals get_terminal(i), i<N, is the i-th array element and is completely initialised: unlinked, no state/command request, follows nothing, RefCell not borrowed, all three reads Ok(None) -- for every content of the MaybeUninit scratch array before the writes; no out-of-bounds / invalid-pointer access (Kani memory checks), unwinding assertions on"
axle_new!(c16_axle_new_n1, 1, 4);
//@ob fn="Axle::new" at=src/devices.rs:255 instance="N=2" clause="N=2: as c16_axle_new_n1; additionally distinct indices are distinct cells"
axle_new!(c16_axle_new_n2, 2, 5);
//@ob fn="Axle::new" at=src/devices.rs:255 instance="N=3" clause="N=3: as c16_axle_new_n2"
axle_new!(c16_axle_new_n3, 3, 6);
//@ob fn="Axle::new" at=src/devices.rs:255 instance="N=4" clause="N=4: as c16_axle_new_n2"
axle_new!(c16_axle_new_n4, 4, 7);
//@ob fn="Axle::new" at=src/devices.rs:255 instance="N=5" clause="N=5: as c16_axle_new_n2"
axle_new!(c16_axle_new_n5, 5, 8);
//@ob fn="Axle::new" at=src/devices.rs:255 instance="N=6" clause="N=6: as c16_axle_new_n2"
axle_new!(c16_axle_new_n6, 6, 9);
//@ob fn="Axle::new" at=src/devices.rs:255 instance="N=7" clause="N=7: as c16_axle_new_n2"
axle_new!(c16_axle_new_n7, 7, 10);
//@ob fn="Axle::new" at=src/devices.rs:255 instance="N=8" clause="N=8: as c16_axle_new_n2"
axle_new!(c16_axle_new_n8, 8, 11);

macro_rules! axle_oob {
    ($name:ident, $n:literal, $unw:literal) => {
        #[kani::proof]
        #[kani::should_panic]
        #[kani::unwind($unw)]
        fn $name() {
            let ax = Axle::<$n, Er>::new();
            let i: usize = kani::any();
            kani::assume(i >= $n);
            let r = ax.get_terminal(i);
            // never reached: the index check panics before any memory is touched (should_panic also requires that
            // no memory-safety check fails)
            kani::cover!(true, "unreach: returned normally");
            let _ = r;
        }
    };
}

//@ob fn="Axle::get_terminal" at=src/devices.rs:271 instance="N=0" clause="N=0, every index: panics (index out of bounds) instead of reading out of range; no memory-safety check fails"
axle_oob!(c16_axle_get_terminal_out_of_range_panics_n0, 0, 3);
//@ob fn="Axle::get_terminal" at=src/devices.rs:271 instance="N=3" clause="N=3, every index i >= 3 up to usize::MAX: panics (index out of bounds) instead of reading out of range; no memory-safety check fails"
axle_oob!(c16_axle_get_terminal_out_of_range_panics_n3, 3, 6);
//@ob fn="Axle::get_terminal" at=src/devices.rs:271 instance="N=8" clause="N=8, every index i >= 8 up to usize::MAX: panics (index out of bounds) instead of reading out of range; no memory-safety check fails"
axle_oob!(c16_axle_get_terminal_out_of_range_panics_n8, 8, 11);
