//@host src/lib.rs
//@config dev
// C09 -- terminal links always form a symmetric matching; connect/disconnect never panic; terminal reads.
// Child module of the crate root: reads and writes the private fields `Terminal::{settable_data_state,
// settable_data_command, other}` and `SettableData::{following, last_request}` to build ARBITRARY pre-states.
//
// Shape of the matching obligations: one-step contract over an arbitrary pre-state that satisfies the data
// invariant "the `other` links of the n cells form a symmetric matching" (symbolic involution p, p[p[k]] == k,
// p[k] == k meaning unlinked), arbitrary slot contents, ONE symbolic operation.  Postcondition: no panic, no
// RefCell left borrowed, the links again form a symmetric matching (so the invariant is inductive), they are
// exactly the matching the statement prescribes, and every slot of every terminal is bit-unchanged (frame).
// One step over arbitrary matchings + inductive invariant => every finite sequence of operations.
// `connect` dereferences only a, b, a.other, b.other, so n = 4 already contains every aliasing pattern; n = 5, 6
// (the property's own range) are in the thorough tier.
#![allow(unused_imports, dead_code)]
use crate::*;
use crate::verif_support::*;

type TCell<'a> = RefCell<Terminal<'a, Er>>;

/// A terminal with arbitrary own state/command slots, not following anything, unlinked.
fn fresh<'a>() -> TCell<'a> {
    RefCell::new(Terminal {
        settable_data_state: SettableData { following: None, last_request: kani::any() },
        settable_data_command: SettableData { following: None, last_request: kani::any() },
        other: None,
    })
}

#[derive(Clone, Copy)]
struct Slots {
    s: Option<Datum<State>>,
    c: Option<Datum<Command>>,
}
fn slots(c: &TCell<'_>) -> Slots {
    let t = c.borrow();
    Slots { s: t.settable_data_state.last_request, c: t.settable_data_command.last_request }
}
fn ods_eq(a: Option<Datum<State>>, b: Option<Datum<State>>) -> bool {
    match (a, b) {
        (None, None) => true,
        (Some(x), Some(y)) => x.time == y.time && state_bits_eq(x.value, y.value),
        _ => false,
    }
}
fn odc_eq(a: Option<Datum<Command>>, b: Option<Datum<Command>>) -> bool {
    match (a, b) {
        (None, None) => true,
        (Some(x), Some(y)) => x.time == y.time && command_bits_eq(x.value, y.value),
        _ => false,
    }
}
fn os_eq(a: Option<State>, b: Option<State>) -> bool {
    match (a, b) {
        (None, None) => true,
        (Some(x), Some(y)) => state_bits_eq(x, y),
        _ => false,
    }
}
fn oc_eq(a: Option<Command>, b: Option<Command>) -> bool {
    match (a, b) {
        (None, None) => true,
        (Some(x), Some(y)) => command_bits_eq(x, y),
        _ => false,
    }
}
fn slots_unchanged(c: &TCell<'_>, before: Slots) -> bool {
    let now = slots(c);
    let t = c.borrow();
    ods_eq(now.s, before.s)
        && odc_eq(now.c, before.c)
        && t.settable_data_state.following.is_none()
        && t.settable_data_command.following.is_none()
}

/// Index of the cell that `cells[k].other` points to (pointer identity); N = unlinked; N + 1 = a pointer that is
/// not one of the cells.
fn link_idx<const N: usize>(cells: &[&TCell<'_>; N], k: usize) -> usize {
    let o = cells[k].borrow().other;
    match o {
        None => N,
        Some(r) => {
            let mut m = N + 1;
            let mut x = 0;
            while x < N {
                if core::ptr::eq(r, cells[x]) {
                    m = x;
                }
                x += 1;
            }
            m
        }
    }
}

/// `&cells[i]` for a symbolic i as an if-then-else over concrete addresses (cheaper for CBMC than a pointer
/// with a symbolic offset; same meaning).
fn cell_at<'a, const N: usize>(cells: &[&'a TCell<'a>; N], i: usize) -> &'a TCell<'a> {
    let mut r = cells[0];
    let mut x = 1;
    while x < N {
        if i == x {
            r = cells[x];
        }
        x += 1;
    }
    r
}

#[derive(Clone, Copy, PartialEq)]
enum Op {
    /// connect(i, j), i != j, i and j not currently linked to each other
    ConnectNotPaired,
    /// connect(i, j), i != j, i and j currently linked to each other
    ConnectPaired,
    /// disconnect(i)
    Disconnect,
}

fn matching_step<'a, const N: usize>(cells: &[&'a TCell<'a>; N], op: Op) {
    // ---- arbitrary pre-state: any symmetric matching over the N cells
    let p: [usize; N] = kani::any();
    let mut k = 0;
    while k < N {
        kani::assume(p[k] < N);
        k += 1;
    }
    k = 0;
    while k < N {
        kani::assume(p[p[k]] == k);
        k += 1;
    }
    k = 0;
    while k < N {
        if p[k] != k {
            cells[k].borrow_mut().other = Some(cell_at(cells, p[k]));
        }
        k += 1;
    }
    let mut before = [Slots { s: None, c: None }; N];
    k = 0;
    while k < N {
        before[k] = slots(cells[k]);
        k += 1;
    }
    // ---- one symbolic operation; q = the matching the statement prescribes afterwards
    let i: usize = kani::any();
    let j: usize = kani::any();
    kani::assume(i < N && j < N);
    let mut q = p;
    match op {
        Op::Disconnect => {
            cell_at(cells, i).borrow_mut().disconnect();
            // "disconnect unlinks both ends"
            q[p[i]] = p[i];
            q[i] = i;
        }
        _ => {
            kani::assume(i != j);
            if op == Op::ConnectPaired {
                kani::assume(p[i] == j);
            } else {
                kani::assume(p[i] != j);
            }
            connect(cell_at(cells, i), cell_at(cells, j));
            // "first unlinks whatever either was linked to (including each other)", then links the two
            q[p[i]] = p[i];
            q[p[j]] = p[j];
            q[i] = j;
            q[j] = i;
        }
    }
    // ---- postcondition
    k = 0;
    while k < N {
        // no RefCell borrow leaked by the operation
        assert!(cells[k].try_borrow_mut().is_ok());
        let l = link_idx(cells, k);
        // links stay inside the set; at most one partner (a single Option), never itself, and mutual
        assert!(l <= N);
        if l < N {
            assert!(l != k);
            assert!(link_idx(cells, l) == k);
        }
        // exactly the expected pairs changed, every other link unchanged
        assert!(l == if q[k] == k { N } else { q[k] });
        // frame: all slots bit-unchanged
        assert!(slots_unchanged(cells[k], before[k]));
        k += 1;
    }
    reach!();
}

macro_rules! step_harness {
    ($name:ident, $unw:literal, $op:expr, [$($c:ident),*]) => {
        #[kani::proof]
        #[kani::unwind($unw)]
        fn $name() {
            // ManuallyDrop: the drop glue of the cells (Option<Reference<dyn Getter>> with Rc/Arc variants) is not
            // part of the obligation and is expensive to execute symbolically.
            // Every cell is a local of its own (separate CBMC objects: field-sensitive updates through the links).
            $(let $c = core::mem::ManuallyDrop::new(fresh());)*
            let cells = [$(&*$c),*];
            matching_step(&cells, $op);
        }
    };
}

//@ob fn="connect" at=src/lib.rs:675 also=rel_check clause="n=2, arbitrary matching, i!=j not linked to each other: no panic, no borrow leaked, afterwards other(i)==j, other(j)==i, former partners unlinked, all other links unchanged, links form a symmetric matching (inductive invariant => every operation sequence), all slots bit-unchanged" instance="n=2 terminals"
step_harness!(c09_connect_step_n2, 4, Op::ConnectNotPaired, [a, b]);
//@ob prop=C09,C08,C13,C20 fn="connect" at=src/lib.rs:675 also_thorough=rel_check clause="n=3, arbitrary matching, i!=j not linked to each other: no panic, no borrow leaked, afterwards other(i)==j, other(j)==i, former partners unlinked, all other links unchanged, links form a symmetric matching (inductive invariant => every operation sequence), all slots bit-unchanged" instance="n=3 terminals"
step_harness!(c09_connect_step_n3, 5, Op::ConnectNotPaired, [a, b, c]);
//@ob fn="connect" at=src/lib.rs:675 clause="n=4 (covers every aliasing pattern of a, b, a.other, b.other), arbitrary matching, i!=j not linked to each other: no panic, no borrow leaked, afterwards other(i)==j, other(j)==i, former partners unlinked, all other links unchanged, links form a symmetric matching (inductive invariant => every operation sequence), all slots bit-unchanged" instance="n=4 terminals"
step_harness!(c09_connect_step_n4, 6, Op::ConnectNotPaired, [a, b, c, d]);
//@ob fn="connect" at=src/lib.rs:675 clause="as c09_connect_step_n4 with n=5" instance="n=5 terminals" tier=thorough
step_harness!(c09_connect_step_n5, 7, Op::ConnectNotPaired, [a, b, c, d, e]);
//@ob fn="connect" at=src/lib.rs:675 clause="as c09_connect_step_n4 with n=6 (the property's own range)" instance="n=6 terminals" tier=thorough
step_harness!(c09_connect_step_n6, 8, Op::ConnectNotPaired, [a, b, c, d, e, f]);

//@ob fn="connect" at=src/lib.rs:675 clause="n=4, arbitrary matching in which i and j are ALREADY linked to each other: connect(i,j) does not panic, leaves them linked to each other, everything else unchanged, slots bit-unchanged ('first unlinks whatever either was linked to (including each other) and never panics')" instance="n=4 terminals"
step_harness!(c09_connect_already_connected_pair_no_panic, 6, Op::ConnectPaired, [a, b, c, d]);
//@ob fn="connect" at=src/lib.rs:675 also_thorough=rel_check clause="as c09_connect_already_connected_pair_no_panic with n=2 (the two-terminal history connect(a,b); connect(a,b))" instance="n=2 terminals"
step_harness!(c09_connect_already_connected_pair_no_panic_n2, 4, Op::ConnectPaired, [a, b]);
//@ob fn="connect" at=src/lib.rs:675 clause="as c09_connect_already_connected_pair_no_panic with n=6" instance="n=6 terminals" tier=thorough
step_harness!(c09_connect_already_connected_pair_no_panic_n6, 8, Op::ConnectPaired, [a, b, c, d, e, f]);

//@ob fn="Terminal::disconnect" at=src/lib.rs:527 also=rel_check clause="n=2, arbitrary matching, any i: no panic, no borrow leaked, i and its former partner unlinked, all other links unchanged, symmetric matching preserved, all slots bit-unchanged" instance="n=2 terminals"
step_harness!(c09_disconnect_step_n2, 4, Op::Disconnect, [a, b]);
//@ob prop=C09,C08,C13,C20 fn="Terminal::disconnect" at=src/lib.rs:527 also_thorough=rel_check clause="n=3, arbitrary matching, any i: no panic, no borrow leaked, i and its former partner unlinked, all other links unchanged, symmetric matching preserved, all slots bit-unchanged" instance="n=3 terminals"
step_harness!(c09_disconnect_step_n3, 5, Op::Disconnect, [a, b, c]);
//@ob fn="Terminal::disconnect" at=src/lib.rs:527 clause="n=4, arbitrary matching, any i: no panic, no borrow leaked, i and its former partner unlinked, all other links unchanged, symmetric matching preserved, all slots bit-unchanged" instance="n=4 terminals"
step_harness!(c09_disconnect_step_n4, 6, Op::Disconnect, [a, b, c, d]);
//@ob fn="Terminal::disconnect" at=src/lib.rs:527 clause="as c09_disconnect_step_n4 with n=5" instance="n=5 terminals" tier=thorough
step_harness!(c09_disconnect_step_n5, 7, Op::Disconnect, [a, b, c, d, e]);
//@ob fn="Terminal::disconnect" at=src/lib.rs:527 clause="as c09_disconnect_step_n4 with n=6" instance="n=6 terminals" tier=thorough
step_harness!(c09_disconnect_step_n6, 8, Op::Disconnect, [a, b, c, d, e, f]);

//@ob fn="Terminal::new" at=src/lib.rs:522 clause="a new terminal is unlinked, has no state/command request and follows nothing (base case of the matching invariant); all three reads are Ok(None)"
#[kani::proof]
fn c09_new_is_unlinked_empty() {
    let t = Terminal::<Er>::new();
    {
        let b = t.borrow();
        assert!(b.other.is_none());
        assert!(b.settable_data_state.last_request.is_none());
        assert!(b.settable_data_command.last_request.is_none());
        assert!(b.settable_data_state.following.is_none());
        assert!(b.settable_data_command.following.is_none());
    }
    let s: Output<State, Er> = <Terminal<'_, Er> as Getter<State, Er>>::get(&t.borrow());
    let c: Output<Command, Er> = <Terminal<'_, Er> as Getter<Command, Er>>::get(&t.borrow());
    let d: Output<TerminalData, Er> = <Terminal<'_, Er> as Getter<TerminalData, Er>>::get(&t.borrow());
    assert!(matches!(s, Ok(None)));
    assert!(matches!(c, Ok(None)));
    assert!(matches!(d, Ok(None)));
    reach!();
}

// ------------------------------------------------------------------------------------------------ reads
// Two cells a, b with arbitrary slots, symbolically linked to each other (both directions) or not.

fn pair<'a>(a: &'a TCell<'a>, b: &'a TCell<'a>) -> bool {
    let linked: bool = kani::any();
    if linked {
        a.borrow_mut().other = Some(b);
        b.borrow_mut().other = Some(a);
    }
    linked
}

/// Deterministic uninterpreted stand-in for `<State as Add>::add` (non-commutative, so operand order is checked).
/// The real operator's own contract is c09_state_add_is_componentwise; the obligation that needs the real IEEE
/// adders (commutativity) is c09_connected_terminals_read_same_state, which does not stub it.
fn stub_state_add(a: State, b: State) -> State {
    State::new_raw(
        fmix(T_ADD, a.position, b.position),
        fmix(T_ADD ^ 1, a.velocity, b.velocity),
        fmix(T_ADD ^ 2, a.acceleration, b.acceleration),
    )
}

/// Spec of the state read, from the statement: mean of own and partner's latest states, or whichever exists.
/// `+` and `/ 2.0` on `State` are the uninterpreted stand-ins (the harnesses stub `<State as Add>::add` and
/// `<State as Div<f32>>::div` with them), so the result is the expression tree div(add(own, partner), 2.0).
fn spec_state_read(own: Option<Datum<State>>, partner: Option<Datum<State>>) -> Option<Datum<State>> {
    match (own, partner) {
        (None, None) => None,
        (Some(o), None) => Some(o),
        (None, Some(p)) => Some(p),
        (Some(o), Some(p)) => {
            Some(Datum::new(tmax(o.time, p.time), stub_state_div_f32(stub_state_add(o.value, p.value), 2.0)))
        }
    }
}
/// Spec of the command read, from the statement: the newer of the two, own wins ties.
fn spec_command_read(own: Option<Datum<Command>>, partner: Option<Datum<Command>>) -> Option<Datum<Command>> {
    match (own, partner) {
        (None, None) => None,
        (Some(o), None) => Some(o),
        (None, Some(p)) => Some(p),
        (Some(o), Some(p)) => Some(if p.time.0 > o.time.0 { p } else { o }),
    }
}

fn state_read_case(own_present: bool, partner_present: bool) {
    let a = fresh();
    let b = fresh();
    let linked = pair(&a, &b);
    let (sa, sb) = (slots(&a), slots(&b));
    let own = sa.s;
    let partner = if linked { sb.s } else { None };
    kani::assume(own.is_some() == own_present && partner.is_some() == partner_present);
    let r: Output<State, Er> = <Terminal<'_, Er> as Getter<State, Er>>::get(&a.borrow());
    // never an error, equals the spec for every content of the unwritten scratch slots
    match r {
        Ok(got) => assert!(ods_eq(got, spec_state_read(own, partner))),
        Err(_) => assert!(false),
    }
    // pure: nothing written, nothing left borrowed, links untouched
    assert!(slots_unchanged(&a, sa) && slots_unchanged(&b, sb));
    assert!(a.try_borrow_mut().is_ok() && b.try_borrow_mut().is_ok());
    assert!(a.borrow().other.is_some() == linked && b.borrow().other.is_some() == linked);
    reach!();
}

//@ob fn="<Terminal<'_,E> as Getter<State,E>>::get" at=src/lib.rs:565 prop=C09,C16 also_thorough=rel_check clause="own state absent, partner absent or terminal unlinked: Ok(None); no scratch slot read; terminal and partner bit-unchanged, no borrow leaked"
#[kani::proof]
#[kani::stub(<State as Div<f32>>::div, stub_state_div_f32)]
#[kani::stub(<State as Add>::add, stub_state_add)]
fn c09_state_read_neither() {
    state_read_case(false, false);
}
//@ob fn="<Terminal<'_,E> as Getter<State,E>>::get" at=src/lib.rs:565 prop=C09,C16,C08 also_thorough=rel_check clause="own state present, partner's absent (or unlinked): exactly the own datum (time and value bits), independent of the unwritten second scratch slot; pure"
#[kani::proof]
#[kani::stub(<State as Div<f32>>::div, stub_state_div_f32)]
#[kani::stub(<State as Add>::add, stub_state_add)]
fn c09_state_read_own_only() {
    state_read_case(true, false);
}
//@ob fn="<Terminal<'_,E> as Getter<State,E>>::get" at=src/lib.rs:565 prop=C09,C16,C08 also_thorough=rel_check clause="own state absent, linked partner's present: exactly the partner's datum (written to scratch slot 0, the only one read); pure"
#[kani::proof]
#[kani::stub(<State as Div<f32>>::div, stub_state_div_f32)]
#[kani::stub(<State as Add>::add, stub_state_add)]
fn c09_state_read_partner_only() {
    state_read_case(false, true);
}
//@ob fn="<Terminal<'_,E> as Getter<State,E>>::get" at=src/lib.rs:565 prop=C09,C16,C03,C08,C20 also=rel_check clause="both present: value == (own + partner) / 2.0 as the expression tree div(add(own, partner), 2.0) over the crate's State operators (uninterpreted deterministic stand-ins, operand order checked; their own contracts: c09_state_add_is_componentwise, c09_state_div_f32_is_componentwise), timestamp == max of the two; pure"
#[kani::proof]
#[kani::stub(<State as Div<f32>>::div, stub_state_div_f32)]
#[kani::stub(<State as Add>::add, stub_state_add)]
fn c09_state_read_both_mean() {
    state_read_case(true, true);
}

//@ob fn="<State as Div<f32>>::div" at=src/state.rs:173 clause="contract of the callee stubbed in the state-read obligations: State / f32 is the component-wise IEEE f32 division (cvc5 FP theory; equal or both NaN)"
#[kani::proof]
#[kani::solver(cvc5)]
fn c09_state_div_f32_is_componentwise() {
    let s: State = kani::any();
    let d: f32 = kani::any();
    let r = s / d;
    assert!(fsame(r.position, s.position / d));
    assert!(fsame(r.velocity, s.velocity / d));
    assert!(fsame(r.acceleration, s.acceleration / d));
    reach!();
}

//@ob fn="<State as Add>::add" at=src/state.rs:143 clause="contract of the callee stubbed in the state-read obligations: State + State is the component-wise IEEE f32 addition (cvc5 FP theory; equal or both NaN)"
#[kani::proof]
#[kani::solver(cvc5)]
fn c09_state_add_is_componentwise() {
    let a: State = kani::any();
    let b: State = kani::any();
    let r = a + b;
    assert!(fsame(r.position, a.position + b.position));
    assert!(fsame(r.velocity, a.velocity + b.velocity));
    assert!(fsame(r.acceleration, a.acceleration + b.acceleration));
    reach!();
}

fn no_nan(s: Option<Datum<State>>) -> bool {
    match s {
        None => true,
        Some(d) => !d.value.position.is_nan() && !d.value.velocity.is_nan() && !d.value.acceleration.is_nan(),
    }
}

//@ob fn="<Terminal<'_,E> as Getter<State,E>>::get" at=src/lib.rs:565 prop=C09,C03 clause="two connected terminals always read the same state: for a, b linked to each other and arbitrary slots whose stored f32 components are not NaN, a.get() and b.get() are both Ok and equal bit for bit (value and timestamp) in all four presence combinations; uses bitwise commutativity of IEEE f32 + on non-NaN operands (decided by SAT on the adders); State/f32 uninterpreted. With NaN operands only NaN-ness of the sum, not its payload, is symmetric: excluded by assumption"
#[kani::proof]
#[kani::stub(<State as Div<f32>>::div, stub_state_div_f32)]
fn c09_connected_terminals_read_same_state() {
    let a = fresh();
    let b = fresh();
    a.borrow_mut().other = Some(&b);
    b.borrow_mut().other = Some(&a);
    kani::assume(no_nan(slots(&a).s) && no_nan(slots(&b).s));
    let ra: Output<State, Er> = <Terminal<'_, Er> as Getter<State, Er>>::get(&a.borrow());
    let rb: Output<State, Er> = <Terminal<'_, Er> as Getter<State, Er>>::get(&b.borrow());
    match (ra, rb) {
        (Ok(x), Ok(y)) => assert!(ods_eq(x, y)),
        _ => assert!(false),
    }
    reach!();
}

//@ob fn="<Terminal<'_,E> as Getter<Command,E>>::get" at=src/lib.rs:602 prop=C09,C03,C13,C20 also_thorough=rel_check clause="command read, arbitrary slots, linked or not: Ok always; None iff neither own nor (linked) partner command exists; otherwise bit-identical to one of the candidates, no candidate is strictly newer, own wins ties (partner only when strictly newer); pure, no borrow leaked"
#[kani::proof]
fn c09_command_read_newer_own_wins_ties() {
    let a = fresh();
    let b = fresh();
    let linked = pair(&a, &b);
    let (sa, sb) = (slots(&a), slots(&b));
    let own = sa.c;
    let partner = if linked { sb.c } else { None };
    let r: Output<Command, Er> = <Terminal<'_, Er> as Getter<Command, Er>>::get(&a.borrow());
    let got = match r {
        Ok(g) => g,
        Err(_) => {
            assert!(false);
            None
        }
    };
    // table form
    assert!(odc_eq(got, spec_command_read(own, partner)));
    // property form: one of the candidates, none strictly newer, own on ties
    match got {
        None => assert!(own.is_none() && partner.is_none()),
        Some(g) => {
            assert!(odc_eq(Some(g), own) || odc_eq(Some(g), partner));
            if let Some(o) = own {
                assert!(o.time.0 <= g.time.0);
            }
            if let Some(p) = partner {
                assert!(p.time.0 <= g.time.0);
            }
            if let (Some(o), Some(p)) = (own, partner) {
                if o.time.0 == p.time.0 {
                    assert!(odc_eq(Some(g), own));
                }
            }
        }
    }
    assert!(slots_unchanged(&a, sa) && slots_unchanged(&b, sb));
    assert!(a.try_borrow_mut().is_ok() && b.try_borrow_mut().is_ok());
    reach!();
}

//@ob fn="<Terminal<'_,E> as Getter<TerminalData,E>>::get" at=src/lib.rs:635 prop=C09,C03,C20 clause="combined read, arbitrary slots, linked or not: never panics (both expects unreachable), Ok always; None iff the command read and the state read are both None; otherwise carries exactly the command and state that the other two getters report, and both timestamps (datum and TerminalData.time) are the state's time when there is a state, else the command's time; pure"
#[kani::proof]
#[kani::stub(<State as Div<f32>>::div, stub_state_div_f32)]
#[kani::stub(<State as Add>::add, stub_state_add)]
fn c09_terminal_data_read() {
    let a = fresh();
    let b = fresh();
    let _linked = pair(&a, &b);
    let (sa, sb) = (slots(&a), slots(&b));
    let rc: Output<Command, Er> = <Terminal<'_, Er> as Getter<Command, Er>>::get(&a.borrow());
    let rs: Output<State, Er> = <Terminal<'_, Er> as Getter<State, Er>>::get(&a.borrow());
    let rd: Output<TerminalData, Er> = <Terminal<'_, Er> as Getter<TerminalData, Er>>::get(&a.borrow());
    match (rc, rs, rd) {
        (Ok(c), Ok(s), Ok(d)) => match d {
            None => assert!(c.is_none() && s.is_none()),
            Some(d) => {
                assert!(c.is_some() || s.is_some());
                let want_time = match (s, c) {
                    (Some(sd), _) => sd.time,
                    (None, Some(cd)) => cd.time,
                    (None, None) => Time(0),
                };
                assert!(d.time == want_time);
                assert!(d.value.time == want_time);
                assert!(oc_eq(d.value.command, c.map(|x| x.value)));
                assert!(os_eq(d.value.state, s.map(|x| x.value)));
            }
        },
        _ => assert!(false),
    }
    assert!(slots_unchanged(&a, sa) && slots_unchanged(&b, sb));
    assert!(a.try_borrow_mut().is_ok() && b.try_borrow_mut().is_ok());
    reach!();
}

//@ob fn="<Terminal<'_,E> as Settable<Datum<State>,E>>::set" at=src/lib.rs:539 prop=C09,C15 also=rel_check clause="'own latest state/command' is what was last set: on an arbitrary terminal set(state datum) and set(command datum) return Ok, the respective own slot then holds exactly that datum, the other slot and the link are unchanged; an unlinked terminal then reads that state back"
#[kani::proof]
#[kani::stub(<State as Div<f32>>::div, stub_state_div_f32)]
fn c09_set_updates_own_slot_only() {
    let a = fresh();
    let b = fresh();
    let linked = pair(&a, &b);
    let (sa, sb) = (slots(&a), slots(&b));
    let ds: Datum<State> = kani::any();
    let dc: Datum<Command> = kani::any();
    let which: bool = kani::any();
    if which {
        let r = a.borrow_mut().set(ds);
        assert!(r.is_ok());
        let now = slots(&a);
        assert!(ods_eq(now.s, Some(ds)) && odc_eq(now.c, sa.c));
        if !linked {
            let rs: Output<State, Er> = <Terminal<'_, Er> as Getter<State, Er>>::get(&a.borrow());
            match rs {
                Ok(g) => assert!(ods_eq(g, Some(ds))),
                Err(_) => assert!(false),
            }
        }
    } else {
        let r = a.borrow_mut().set(dc);
        assert!(r.is_ok());
        let now = slots(&a);
        assert!(odc_eq(now.c, Some(dc)) && ods_eq(now.s, sa.s));
    }
    assert!(slots_unchanged(&b, sb));
    assert!(a.borrow().other.is_some() == linked && b.borrow().other.is_some() == linked);
    reach!();
}
