//@host src/devices/wrappers.rs
//@config dev
// C16, second sentence -- REFUTATION WITNESS for the eleventh lifetime-widening accessor, PIDWrapper::get_terminal
// (witness=1: expected to FAIL on the unchanged tree; see c16_dangle.rs for the other ten and for the rationale).
//
// This file does not contain the opt-out keyword anywhere.  Difference to the other ten: `PIDWrapper::new` (three Rc
// allocations, two `follow` calls that run the recursive drop glue of `Option<Reference<dyn Getter<..>>>` through
// vtables) does not finish under CBMC's symbolic execution on this image (the same timeout shows in C20's
// c20_pid_new_wiring), so the wrapper is assembled here field by field with a struct literal (this module is a child of
// `devices::wrappers`, hence may name the private fields) from the same public constructors `new` uses, minus the two
// `follow` calls, and is leaked with `core::mem::forget` (a safe function) so that no destructor runs.  The stack
// slot the reference points into still dies at the closing brace.  How the wrapper was built is immaterial to the
// defect exhibited: the accessor returns `&'a RefCell<Terminal<'a, E>>` with 'a not tied to `&self`.
#![allow(unused_imports, dead_code)]
use crate::devices::wrappers::*;
use crate::verif_support::{reach, Er};
use crate::*;

struct NullMotor {
    sd: SettableData<f32, Er>,
}
impl Settable<f32, Er> for NullMotor {
    fn impl_set(&mut self, _v: f32) -> NothingOrError<Er> {
        Ok(())
    }
    fn get_settable_data_ref(&self) -> &SettableData<f32, Er> {
        &self.sd
    }
    fn get_settable_data_mut(&mut self) -> &mut SettableData<f32, Er> {
        &mut self.sd
    }
}
impl Updatable<Er> for NullMotor {
    fn update(&mut self) -> NothingOrError<Er> {
        Ok(())
    }
}

fn assemble<'a>() -> PIDWrapper<'a, NullMotor, Er> {
    let cmd = Command::new(PositionDerivative::Position, 0.0);
    let k = PositionDerivativeDependentPIDKValues::new(
        PIDKValues::new(1.0, 0.0, 0.0),
        PIDKValues::new(1.0, 0.0, 0.0),
        PIDKValues::new(1.0, 0.0, 0.0),
    );
    let time = Reference::from_rc_ref_cell(Rc::new(RefCell::new(Time(0))));
    let state = Reference::from_rc_ref_cell(Rc::new(RefCell::new(ConstantGetter::new(
        time.clone(),
        State::new_raw(0.0, 0.0, 0.0),
    ))));
    let command = Reference::from_rc_ref_cell(Rc::new(RefCell::new(ConstantGetter::new(time.clone(), cmd))));
    let pid = Reference::from_rc_ref_cell(Rc::new(RefCell::new(streams::control::CommandPID::new(
        state.clone(),
        cmd,
        k,
    ))));
    PIDWrapper {
        terminal: Terminal::new(),
        time: time,
        state: state,
        command: command,
        pid: pid,
        inner: NullMotor { sd: SettableData::new() },
    }
}

//@ob witness=1 fn="PIDWrapper::get_terminal" at=src/devices/wrappers.rs:131 clause="WITNESS (expected to fail): borrow-checked program obtains the terminal reference, the PIDWrapper (assembled by struct literal, leaked with mem::forget) goes out of scope, the reference is used through the public API: dereference of a dead object"
#[kani::proof]
#[kani::unwind(3)]
fn c16_dangle_pid_wrapper_get_terminal() {
    let r;
    {
        let dev = assemble();
        r = dev.get_terminal();
        core::mem::forget(dev);
    }
    let out: Output<Command, Er> = r.borrow().get();
    let _ = matches!(out, Ok(None));
    reach!();
}
