//@host src/dimensions.rs
//@config dev
// C18, second sentence: Time / DimensionlessInteger <-> Quantity conversions (exact formulas, all i64 / all f32 bit
// patterns / all i8 x i8 units, cvc5 floating-point theory; Quantity, Time and Result<Time, ()> carry no f32 inside an
// enum).  Expected units are the statement's literals: Time is mm^0 s^1, DimensionlessInteger mm^0 s^0.
// Accuracy clauses: see the note at the end of this file.
#![allow(unused_imports, dead_code)]
use crate::*;
use crate::verif_support::*;

fn any_exps() -> (i8, i8) { (kani::any(), kani::any()) }
const NS_PER_S: f32 = 1_000_000_000.0;
/// 2^63 as f32 (exactly representable)
const TWO63: f32 = 9223372036854775808.0;

//@ob fn="<Quantity as From<Time>>::from" at=src/dimensions.rs:150 prop=C18,C14 clause="for every i64 ns: unit is mm^0 s^1 and value == (ns as f32) / 1e9 exactly (one cast, one f32 division); the value is finite, never NaN, and has the sign of ns (0 -> +0)"
#[kani::proof]
#[kani::solver(cvc5)]
fn c18_quantity_from_time() {
    let ns: i64 = kani::any();
    let q = Quantity::from(Time(ns));
    assert!(q.unit == Unit::new(0, 1));
    assert!(q.unit.millimeter_exp == 0 && q.unit.second_exp == 1);
    let want = (ns as f32) / NS_PER_S;
    assert!(q.value == want);
    assert!(q.value.is_finite());
    assert!(q.value.is_sign_negative() == (ns < 0));
    assert!((q.value == 0.0) == (ns == 0));
    let q2: Quantity = Time(ns).into();
    assert!(q2.value == want && q2.unit == q.unit);
    reach!();
}

//@ob fn="<Quantity as From<DimensionlessInteger>>::from" at=src/dimensions.rs:273 clause="for every i64 n: unit is mm^0 s^0 and value == n as f32 exactly; finite, sign of n"
#[kani::proof]
#[kani::solver(cvc5)]
fn c18_quantity_from_dint() {
    let n: i64 = kani::any();
    let q = Quantity::from(DimensionlessInteger(n));
    assert!(q.unit == Unit::new(0, 0));
    assert!(q.unit.millimeter_exp == 0 && q.unit.second_exp == 0);
    assert!(q.value == n as f32);
    assert!(q.value.is_finite());
    assert!(q.value.is_sign_negative() == (n < 0));
    let q2: Quantity = DimensionlessInteger(n).into();
    assert!(q2.value == n as f32 && q2.unit == q.unit);
    reach!();
}

//@ob fn="<Time as TryFrom<Quantity>>::try_from" at=src/dimensions.rs:140 clause="Ok(Time((v * 1e9) as i64)) iff the unit is mm^0 s^1; Err(()) for every other unit of i8 x i8 (all f32 bit patterns)"
#[kani::proof]
#[kani::solver(cvc5)]
fn c18_time_try_from_quantity() {
    let (m, s) = any_exps();
    let v: f32 = kani::any();
    let q = Quantity::new(v, Unit::new(m, s));
    let r = Time::try_from(q);
    let want = if m == 0 && s == 1 { Ok(Time((v * NS_PER_S) as i64)) } else { Err(()) };
    assert!(r == want);
    let r2: Result<Time, ()> = q.try_into();
    assert!(r2 == want);
    kani::cover!(r.is_ok(), "seconds convert");
    kani::cover!(r.is_err() && m == 0 && s == -1, "Err for s^-1");
    kani::cover!(r.is_err() && m == 1 && s == 1, "Err for mm s");
    kani::cover!(r.is_err() && m == 0 && s == 0, "Err for dimensionless");
    reach!();
}

//@ob fn="<Time as TryFrom<Quantity>>::try_from" at=src/dimensions.rs:140 clause="meaning of the cast for a quantity in seconds, p = v*1e9 in f32 (one rounding): NaN -> 0; p >= 2^63 -> i64::MAX; p <= -2^63 -> i64::MIN; otherwise the result is p truncated toward zero, i.e. |result - p| < 1 ns, |result| <= |p|, same sign (compared exactly in f64)"
#[kani::proof]
#[kani::solver(cvc5)]
fn c18_time_try_from_quantity_truncates_within_1ns() {
    let v: f32 = kani::any();
    let p = v * NS_PER_S;
    let r = match Time::try_from(Quantity::new(v, Unit::new(0, 1))) {
        Ok(t) => t.0,
        Err(()) => { assert!(false, "seconds must convert"); 0 }
    };
    if p.is_nan() {
        assert!(r == 0);
    } else if p >= TWO63 {
        assert!(r == i64::MAX);
    } else if p <= -TWO63 {
        assert!(r == i64::MIN);
    } else {
        // |p| < 2^63: p (24 significant bits) and r (= p when |p| >= 2^24, else |r| < 2^24) are exact in f64,
        // and so is their difference
        let (pd, rd) = (p as f64, r as f64);
        assert!(rd as i64 == r);
        let d = pd - rd;
        assert!(d > -1.0 && d < 1.0);
        assert!(if pd >= 0.0 { rd >= 0.0 && rd <= pd } else { rd <= 0.0 && rd >= pd });
    }
    kani::cover!(p.is_nan(), "NaN");
    kani::cover!(p >= TWO63, "saturates high");
    kani::cover!(p <= -TWO63, "saturates low");
    kani::cover!(p > 0.25 && p < 0.75, "fraction of a nanosecond is dropped");
    kani::cover!(p < -1.25 && p > -1.75, "negative, truncated toward zero");
    reach!();
}

//@ob fn="<DimensionlessInteger as TryFrom<Quantity>>::try_from" at=src/dimensions.rs:263 clause="Ok(DimensionlessInteger(v as i64)) iff the unit is mm^0 s^0; Err(()) for every other unit of i8 x i8 (all f32 bit patterns)"
#[kani::proof]
#[kani::solver(cvc5)]
fn c18_dint_try_from_quantity() {
    let (m, s) = any_exps();
    let v: f32 = kani::any();
    let q = Quantity::new(v, Unit::new(m, s));
    let r = DimensionlessInteger::try_from(q);
    let want = if m == 0 && s == 0 { Ok(DimensionlessInteger(v as i64)) } else { Err(()) };
    assert!(r == want);
    let r2: Result<DimensionlessInteger, ()> = q.try_into();
    assert!(r2 == want);
    kani::cover!(r.is_ok(), "dimensionless converts");
    kani::cover!(r.is_err() && m == 0 && s == 1, "Err for seconds");
    kani::cover!(r.is_err() && m == 1 && s == 0, "Err for mm");
    reach!();
}

//@ob fn="<DimensionlessInteger as TryFrom<Quantity>>::try_from" at=src/dimensions.rs:263 clause="meaning of the cast for a dimensionless quantity: NaN -> 0; saturation at +-2^63; otherwise v truncated toward zero (|result - v| < 1, |result| <= |v|, same sign)"
#[kani::proof]
#[kani::solver(cvc5)]
fn c18_dint_try_from_quantity_truncates() {
    let v: f32 = kani::any();
    let r = match DimensionlessInteger::try_from(Quantity::new(v, Unit::new(0, 0))) {
        Ok(t) => t.0,
        Err(()) => { assert!(false, "dimensionless must convert"); 0 }
    };
    if v.is_nan() {
        assert!(r == 0);
    } else if v >= TWO63 {
        assert!(r == i64::MAX);
    } else if v <= -TWO63 {
        assert!(r == i64::MIN);
    } else {
        let (pd, rd) = (v as f64, r as f64);
        assert!(rd as i64 == r);
        let d = pd - rd;
        assert!(d > -1.0 && d < 1.0);
        assert!(if pd >= 0.0 { rd >= 0.0 && rd <= pd } else { rd <= 0.0 && rd >= pd });
    }
    kani::cover!(v >= TWO63, "saturates high");
    kani::cover!(v > 2.25 && v < 2.75, "fraction dropped");
    reach!();
}

//@ob fn="<Quantity as From<DimensionlessInteger>>::from" at=src/dimensions.rs:273 clause="round trip DimensionlessInteger -> Quantity -> DimensionlessInteger never fails and is the identity for |n| <= 2^24 (every such integer is an f32)"
#[kani::proof]
#[kani::solver(cvc5)]
fn c18_dint_quantity_round_trip_small() {
    let n: i64 = kani::any();
    let back = DimensionlessInteger::try_from(Quantity::from(DimensionlessInteger(n)));
    assert!(back.is_ok());
    if n >= -16777216 && n <= 16777216 { assert!(back == Ok(DimensionlessInteger(n))); }
    kani::cover!(n == 16777216, "2^24");
    kani::cover!(n == 16777217 && back != Ok(DimensionlessInteger(n)), "2^24 + 1 is not an f32: the bound is tight");
    reach!();
}

//@ob fn="<Quantity as From<Time>>::from" at=src/dimensions.rs:150 clause="monotonicity, cast step only: t1 <= t2 implies (t1 as f32) <= (t2 as f32) for all i64 pairs (the remaining step, monotonicity of f32 division by the positive constant 1e9, is an IEEE-754 fact the solver did not establish in 25 min; see note)"
#[kani::proof]
#[kani::solver(cvc5)]
fn c18_time_to_f32_cast_is_monotone() {
    let (t1, t2): (i64, i64) = (kani::any(), kani::any());
    kani::assume(t1 <= t2);
    assert!((t1 as f32) <= (t2 as f32));
    kani::cover!(t1 < t2 && (t1 as f32) == (t2 as f32), "distinct times may collapse to one f32 (non-strict)");
    reach!();
}

//@ob fn="<Quantity as From<Time>>::from" at=src/dimensions.rs:150 clause="accuracy, cast step only: for every i64 ns, |(ns as f32) - ns| <= 2^-24 * |ns| (half an ulp; compared exactly in i128), shared by Quantity::from(DimensionlessInteger); the division step is IEEE-754 correct rounding, see note"
#[kani::proof]
#[kani::solver(cvc5)]
fn c18_i64_to_f32_cast_within_half_ulp() {
    let ns: i64 = kani::any();
    let x = Quantity::from(DimensionlessInteger(ns)).value;
    // |x| <= 2^63 and x is an integer, so the cast to i128 is exact
    let d = x as i128 - ns as i128;
    let ad = if d < 0 { -d } else { d };
    let an = if ns < 0 { -(ns as i128) } else { ns as i128 };
    assert!(ad * 16777216 <= an);
    kani::cover!(ns == 16777217 && ad == 1, "2^24 + 1 rounds to 2^24: the bound is tight up to one part in 2^24");
    reach!();
}

// NOTE (accuracy clauses of C18, not discharged here).  Attempted as cvc5 obligations on the whole domain; each was
// stopped without an answer after 330 s and, in a second attempt, after 1500 s, therefore NOT included (and not
// replaced by sampling):
//   * monotone in t:   t1 <= t2  =>  Quantity::from(Time(t1)).value <= Quantity::from(Time(t2)).value
//                      (also the lemma  x <= y  =>  x / 1e9 <= y / 1e9  alone; cvc5, z3, Kissat);
//   * within 2 ulp:    |v - ns/1e9| against an f64 reference (both as  v*1e9 - ns  and as  v - ns/1e9);
//   * round trip:      |Time::try_from(Quantity::from(Time(t))) - t| <= |t| * 2^-22 + 1   (i128 comparison).
// What IS proved: the exact formulas (value == (ns as f32)/1e9, result == (v*1e9) as i64), the truncation meaning of
// the cast (< 1 ns), and for the i64 -> f32 cast step both monotonicity and the half-ulp error bound.  The three clauses follow from these by IEEE-754 correct rounding
// of i64->f32, `/` and `*`, which is a property of the arithmetic, not of rrtk's text.
