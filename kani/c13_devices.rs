//@host src/devices.rs
//@config dev
// C13: one-degree-of-freedom devices relay the newest command to every terminal, scaled; a differential never
// alters commands.  Same technique as c08_devices.rs: Command operator impls (neg, *f32, /f32) are uninterpreted
// stand-ins (which keep the position-derivative kind, as the real ones do: C14), and the own command slot of every
// device terminal after `update()` -- and the command READ through `Getter<Command>` at every device terminal --
// is compared bit for bit (timestamp, kind, every f32 bit) with the expected expression tree.
// Notation in clauses:  cK / tK = value / timestamp of the command READ at terminal K before the update;
// `X := tree @time`; `-` = slot not written (previous content kept bit for bit).  State slots are symbolic too in
// every harness (any subset present): the command results do not depend on them.
#![allow(unused_imports, dead_code, unused_macros)]
use crate::*;
use crate::verif_support::*;
use super::*;
include!("_c08_c13_common.rs");

fn same_kind(a: Command, b: Command) -> bool { PositionDerivative::from(a) == PositionDerivative::from(b) }

// ======================================================================================== Invert
/// Spec (statement: "the most recently issued command among those present at its terminals, with the issuer's
/// timestamp and kind, value negated across an inverter"; documented tie rule: side 1 wins equal timestamps).
/// Returns what is written to (term1, term2) and which side issued the winner (1, 2, or 0 for none).
fn invert_cmd_spec(g1: CSlot, g2: CSlot) -> (CSlot, CSlot, u8) {
    let issuer: u8 = match (g1, g2) {
        (None, None) => 0,
        (Some(_), None) => 1,
        (None, Some(_)) => 2,
        (Some(a), Some(b)) => if b.time.0 > a.time.0 { 2 } else { 1 },
    };
    match issuer {
        0 => (None, None, 0),
        1 => { let a = g1.unwrap(); (Some(a), Some(Datum::new(a.time, cneg(a.value))), 1) }
        _ => {
            let b = g2.unwrap();
            let on_side1 = cneg(b.value);
            (Some(Datum::new(b.time, on_side1)), Some(Datum::new(b.time, cneg(on_side1))), 2)
        }
    }
}
macro_rules! invert_cmd_case {
    ($name:ident, $h1:expr, $h2:expr) => {
        stubbed! {
        fn $name() {
            let mut dev = Invert::<Er>::new();
            let s1: SSlot = kani::any(); let s2: SSlot = kani::any();
            let c1: CSlot = kani::any(); let c2: CSlot = kani::any();
            kani::assume(c1.is_some() == $h1 && c2.is_some() == $h2);
            put(&dev.term1, s1, c1); put(&dev.term2, s2, c2);
            let r = dev.update();
            assert!(r.is_ok());
            let (w1, w2, issuer) = invert_cmd_spec(c1, c2);
            assert!((issuer == 0) == !($h1 || $h2));
            let (x1, x2) = (after_c(w1, c1), after_c(w2, c2));
            assert!(cs_eq(slot_c(&dev.term1), x1));
            assert!(cs_eq(slot_c(&dev.term2), x2));
            // what a reader sees at either terminal
            assert!(rc_eq(read_c(&dev.term1), x1));
            assert!(rc_eq(read_c(&dev.term2), x2));
            // issuer's timestamp and kind at both terminals
            if issuer != 0 {
                let iss = if issuer == 1 { c1.unwrap() } else { c2.unwrap() };
                let (o1, o2) = (slot_c(&dev.term1).unwrap(), slot_c(&dev.term2).unwrap());
                assert!(o1.time.0 == iss.time.0 && o2.time.0 == iss.time.0);
                assert!(same_kind(o1.value, iss.value) && same_kind(o2.value, iss.value));
            }
            reach!();
        }
        }
    };
}
//@ob fn="<Invert<E> as Updatable<E>>::update" at=src/devices.rs:78 prop=C13,C03 also_thorough=rel_check clause="no command at either terminal: term1 := -; term2 := - (nothing written; reads yield none)"
invert_cmd_case!(c13_invert_none, false, false);
//@ob fn="<Invert<E> as Updatable<E>>::update" at=src/devices.rs:78 prop=C13,C03 also_thorough=rel_check clause="only side 1 has a command: term1 := c1 @t1 (same kind); term2 := -(c1) @t1 (same kind); reads at terminals 1, 2 yield exactly these"
invert_cmd_case!(c13_invert_only1, true, false);
//@ob fn="<Invert<E> as Updatable<E>>::update" at=src/devices.rs:78 prop=C13,C03 also_thorough=rel_check clause="only side 2 has a command: term1 := -(c2) @t2; term2 := -(-(c2)) @t2 (kind of c2 at both); reads yield exactly these"
invert_cmd_case!(c13_invert_only2, false, true);
//@ob fn="<Invert<E> as Updatable<E>>::update" at=src/devices.rs:78 prop=C13,C03 also=rel_check clause="both present, all timestamp orders: t2 > t1: term1 := -(c2) @t2; term2 := -(-(c2)) @t2; else (t1 >= t2, side 1 wins ties): term1 := c1 @t1; term2 := -(c1) @t1; issuer's kind and timestamp at both; reads yield exactly these"
invert_cmd_case!(c13_invert_both, true, true);

//@ob fn="<Invert<E> as Updatable<E>>::update" at=src/devices.rs:78 prop=C13,C09 clause="each device terminal connected to an external terminal, all 16 have/lack subsets of the 4 command slots: the inverter rule is applied to the terminal READS (newer of own and partner, own wins ties); partner slots unchanged; afterwards the read at each device terminal is the newest of everything, mapped to that side"
stubbed! {
fn c13_invert_reads_connected_terminals() {
    let mut dev = Invert::<Er>::new();
    let ext1 = Terminal::<Er>::new();
    let ext2 = Terminal::<Er>::new();
    connect(dev.get_terminal_1(), &ext1);
    connect(dev.get_terminal_2(), &ext2);
    let c1: CSlot = kani::any(); let c2: CSlot = kani::any();
    let e1: CSlot = kani::any(); let e2: CSlot = kani::any();
    put(&dev.term1, None, c1); put(&dev.term2, None, c2);
    put(&ext1, None, e1); put(&ext2, None, e2);
    let r = dev.update();
    assert!(r.is_ok());
    let (g1, g2) = (term_read_c(c1, e1), term_read_c(c2, e2));
    let (w1, w2, _issuer) = invert_cmd_spec(g1, g2);
    let (x1, x2) = (after_c(w1, c1), after_c(w2, c2));
    assert!(cs_eq(slot_c(&dev.term1), x1));
    assert!(cs_eq(slot_c(&dev.term2), x2));
    assert!(cs_eq(slot_c(&ext1), e1) && cs_eq(slot_c(&ext2), e2));
    // the winner is at least as new as both partners' commands, so the reads show the written values
    assert!(rc_eq(read_c(&dev.term1), x1));
    assert!(rc_eq(read_c(&dev.term2), x2));
    reach!();
}
}

// ======================================================================================== GearTrain
/// Spec (statement: "multiplied by the ratio from side 1 to side 2 of a gear train and divided the other way";
/// the newer side is the issuer, side 1 wins ties; the issuer's own slot is left as it is).
fn gear_cmd_spec(g1: CSlot, g2: CSlot, r: f32) -> (CSlot, CSlot, u8) {
    let issuer: u8 = match (g1, g2) {
        (None, None) => 0,
        (Some(_), None) => 1,
        (None, Some(_)) => 2,
        (Some(a), Some(b)) => if b.time.0 > a.time.0 { 2 } else { 1 },
    };
    match issuer {
        0 => (None, None, 0),
        1 => { let a = g1.unwrap(); (None, Some(Datum::new(a.time, cmul(a.value, r))), 1) }
        _ => { let b = g2.unwrap(); (Some(Datum::new(b.time, cdiv(b.value, r))), None, 2) }
    }
}
macro_rules! gear_cmd_case {
    ($name:ident, $h1:expr, $h2:expr) => {
        stubbed! {
        fn $name() {
            let ratio: f32 = kani::any();
            let mut dev = GearTrain::<Er>::with_ratio_raw(ratio);
            let s1: SSlot = kani::any(); let s2: SSlot = kani::any();
            let c1: CSlot = kani::any(); let c2: CSlot = kani::any();
            kani::assume(c1.is_some() == $h1 && c2.is_some() == $h2);
            put(&dev.term1, s1, c1); put(&dev.term2, s2, c2);
            let r = dev.update();
            assert!(r.is_ok());
            let (w1, w2, issuer) = gear_cmd_spec(c1, c2, ratio);
            assert!((issuer == 0) == !($h1 || $h2));
            let (x1, x2) = (after_c(w1, c1), after_c(w2, c2));
            assert!(cs_eq(slot_c(&dev.term1), x1));
            assert!(cs_eq(slot_c(&dev.term2), x2));
            assert!(rc_eq(read_c(&dev.term1), x1));
            assert!(rc_eq(read_c(&dev.term2), x2));
            if issuer != 0 {
                let iss = if issuer == 1 { c1.unwrap() } else { c2.unwrap() };
                let (o1, o2) = (slot_c(&dev.term1).unwrap(), slot_c(&dev.term2).unwrap());
                assert!(o1.time.0 == iss.time.0 && o2.time.0 == iss.time.0);
                assert!(same_kind(o1.value, iss.value) && same_kind(o2.value, iss.value));
                // the issuing side still reads its own command, bit for bit
                if issuer == 1 { assert!(dc_eq(o1, iss)); } else { assert!(dc_eq(o2, iss)); }
            }
            assert!(feq(dev.ratio, ratio));
            reach!();
        }
        }
    };
}
//@ob fn="<GearTrain<E> as Updatable<E>>::update" at=src/devices.rs:196 prop=C13,C03 also_thorough=rel_check clause="no command at either terminal, any ratio: nothing written; reads yield none"
gear_cmd_case!(c13_gear_none, false, false);
//@ob fn="<GearTrain<E> as Updatable<E>>::update" at=src/devices.rs:196 prop=C13,C03 also=rel_check clause="only side 1 has a command, any ratio r: term1 := - (c1 @t1 stays); term2 := c1 * r @t1 (same kind); reads yield exactly these"
gear_cmd_case!(c13_gear_only1, true, false);
//@ob fn="<GearTrain<E> as Updatable<E>>::update" at=src/devices.rs:196 prop=C13,C03 also_thorough=rel_check clause="only side 2 has a command, any ratio r: term1 := c2 / r @t2 (same kind); term2 := - (c2 @t2 stays); reads yield exactly these"
gear_cmd_case!(c13_gear_only2, false, true);
//@ob fn="<GearTrain<E> as Updatable<E>>::update" at=src/devices.rs:196 prop=C13,C03 also_thorough=rel_check clause="both present, all timestamp orders, any ratio r: t1 >= t2 (side 1 wins ties): term2 := c1 * r @t1, term1 := - (keeps c1 @t1); t2 > t1: term1 := c2 / r @t2, term2 := - (keeps c2 @t2); issuer's kind and timestamp at both terminals; reads yield exactly these"
gear_cmd_case!(c13_gear_both, true, true);

//@ob fn="<GearTrain<E> as Updatable<E>>::update" at=src/devices.rs:196 prop=C13,C09 clause="each device terminal connected to an external terminal, all 16 have/lack subsets of the 4 command slots: the gear-train rule is applied to the terminal READS (newer of own and partner, own wins ties); partner slots unchanged"
stubbed! {
fn c13_gear_reads_connected_terminals() {
    let ratio: f32 = kani::any();
    let mut dev = GearTrain::<Er>::with_ratio_raw(ratio);
    let ext1 = Terminal::<Er>::new();
    let ext2 = Terminal::<Er>::new();
    connect(dev.get_terminal_1(), &ext1);
    connect(dev.get_terminal_2(), &ext2);
    let c1: CSlot = kani::any(); let c2: CSlot = kani::any();
    let e1: CSlot = kani::any(); let e2: CSlot = kani::any();
    put(&dev.term1, None, c1); put(&dev.term2, None, c2);
    put(&ext1, None, e1); put(&ext2, None, e2);
    let r = dev.update();
    assert!(r.is_ok());
    let (g1, g2) = (term_read_c(c1, e1), term_read_c(c2, e2));
    let (w1, w2, issuer) = gear_cmd_spec(g1, g2, ratio);
    let (x1, x2) = (after_c(w1, c1), after_c(w2, c2));
    assert!(cs_eq(slot_c(&dev.term1), x1));
    assert!(cs_eq(slot_c(&dev.term2), x2));
    assert!(cs_eq(slot_c(&ext1), e1) && cs_eq(slot_c(&ext2), e2));
    // reading side opposite to the issuer shows the scaled winner
    if issuer == 1 { assert!(rc_eq(read_c(&dev.term2), w2)); }
    if issuer == 2 { assert!(rc_eq(read_c(&dev.term1), w1)); }
    reach!();
}
}

// ======================================================================================== Axle
/// Spec (statement: "unchanged across an axle"; newest among all terminals, the first in terminal order wins ties).
fn axle_cmd_spec<const N: usize>(g: &[CSlot; N]) -> CSlot {
    let mut best: CSlot = None;
    let mut i = 0;
    while i < N {
        if let Some(d) = g[i] {
            best = match best {
                None => Some(d),
                Some(b) => if d.time.0 > b.time.0 { Some(d) } else { Some(b) },
            };
        }
        i += 1;
    }
    best
}
macro_rules! axle_cmd_harness {
    ($name:ident, $n:expr, $unw:literal) => {
        stubbed! {
        #[kani::unwind($unw)]
        fn $name() {
            const N: usize = $n;
            let mut dev = Axle::<N, Er>::new();
            let mut s: [SSlot; N] = [None; N];
            let mut c: [CSlot; N] = [None; N];
            let mut i = 0;
            while i < N {
                s[i] = kani::any(); c[i] = kani::any();
                put(&dev.inputs[i], s[i], c[i]);
                i += 1;
            }
            let r = dev.update();
            assert!(r.is_ok());
            let w = axle_cmd_spec(&c);
            // independent characterisation of the winner: present, no other is strictly newer, earlier ones are not as new
            let mut any_present = false;
            let mut i = 0;
            while i < N { if c[i].is_some() { any_present = true; } i += 1; }
            assert!(w.is_some() == any_present);
            if let Some(win) = w {
                let mut i = 0;
                while i < N { if let Some(d) = c[i] { assert!(d.time.0 <= win.time.0); } i += 1; }
            }
            let mut i = 0;
            while i < N {
                assert!(cs_eq(slot_c(&dev.inputs[i]), after_c(w, c[i])));
                assert!(rc_eq(read_c(&dev.inputs[i]), after_c(w, c[i])));
                i += 1;
            }
            reach!();
        }
        }
    };
}
//@ob fn="<Axle<N,E> as Updatable<E>>::update" at=src/devices.rs:295 instance="axle size 1" prop=C13,C03 clause="N=1: a present command is rewritten unchanged (value bits, kind, timestamp); absent: nothing written"
axle_cmd_harness!(c13_axle_1, 1, 3);
//@ob fn="<Axle<N,E> as Updatable<E>>::update" at=src/devices.rs:295 instance="axle size 2" prop=C13,C03 clause="N=2, all 4 subsets and timestamp orders: every terminal := the command with the largest timestamp among those present (first in terminal order on ties), bit-unchanged value, kind and timestamp; none present: nothing written; reads at every terminal yield it"
axle_cmd_harness!(c13_axle_2, 2, 4);
//@ob fn="<Axle<N,E> as Updatable<E>>::update" at=src/devices.rs:295 instance="axle size 3" prop=C13,C03 clause="N=3, all 8 subsets and timestamp orders: every terminal := newest present command (first wins ties) unchanged; none: nothing; reads yield it"
axle_cmd_harness!(c13_axle_3, 3, 5);
//@ob fn="<Axle<N,E> as Updatable<E>>::update" at=src/devices.rs:295 tier=thorough instance="axle size 4" prop=C13,C03 clause="N=4, all 16 subsets and timestamp orders: every terminal := newest present command (first wins ties) unchanged; none: nothing; reads yield it"
axle_cmd_harness!(c13_axle_4, 4, 6);
//@ob fn="<Axle<N,E> as Updatable<E>>::update" at=src/devices.rs:295 tier=thorough instance="axle size 5" prop=C13,C03 clause="N=5, all 32 subsets and timestamp orders: every terminal := newest present command (first wins ties) unchanged; none: nothing; reads yield it"
axle_cmd_harness!(c13_axle_5, 5, 7);
//@ob fn="<Axle<N,E> as Updatable<E>>::update" at=src/devices.rs:295 tier=thorough instance="axle size 6" prop=C13,C03 clause="N=6, all 64 subsets and timestamp orders: every terminal := newest present command (first wins ties) unchanged; none: nothing; reads yield it"
axle_cmd_harness!(c13_axle_6, 6, 8);

// ======================================================================================== Differential
macro_rules! differential_cmd_harness {
    ($name:ident, $variant:expr) => {
        stubbed! {
        fn $name() {
            let mut dev = Differential::<Er>::with_distrust($variant);
            let s1: SSlot = kani::any(); let s2: SSlot = kani::any(); let sm: SSlot = kani::any();
            let c1: CSlot = kani::any(); let c2: CSlot = kani::any(); let cm: CSlot = kani::any();
            put(&dev.side1, s1, c1); put(&dev.side2, s2, c2); put(&dev.sum, sm, cm);
            let r = dev.update();
            assert!(r.is_ok());
            assert!(cs_eq(slot_c(&dev.side1), c1));
            assert!(cs_eq(slot_c(&dev.side2), c2));
            assert!(cs_eq(slot_c(&dev.sum), cm));
            assert!(rc_eq(read_c(&dev.side1), c1) && rc_eq(read_c(&dev.side2), c2) && rc_eq(read_c(&dev.sum), cm));
            reach!();
        }
        }
    };
}
//@ob fn="<Differential<E> as Updatable<E>>::update" at=src/devices.rs:376 clause="distrust side 1, all 64 have/lack subsets of the state and command slots: every command slot (and command read) bit-unchanged"
differential_cmd_harness!(c13_differential_side1_commands_unchanged, DifferentialDistrust::Side1);
//@ob fn="<Differential<E> as Updatable<E>>::update" at=src/devices.rs:387 clause="distrust side 2, all subsets: every command slot (and command read) bit-unchanged"
differential_cmd_harness!(c13_differential_side2_commands_unchanged, DifferentialDistrust::Side2);
//@ob fn="<Differential<E> as Updatable<E>>::update" at=src/devices.rs:398 clause="distrust sum, all subsets: every command slot (and command read) bit-unchanged"
differential_cmd_harness!(c13_differential_sum_commands_unchanged, DifferentialDistrust::Sum);
//@ob fn="<Differential<E> as Updatable<E>>::update" at=src/devices.rs:409 clause="equal trust, all subsets: every command slot (and command read) bit-unchanged"
differential_cmd_harness!(c13_differential_equal_commands_unchanged, DifferentialDistrust::Equal);

// ======================================================================================== chain of two devices
//@ob fn="<GearTrain<E> as Updatable<E>>::update" at=src/devices.rs:196 bounded="chain of 2 devices" clause="Invert -> GearTrain(r) joined by connect(inv.terminal2, gear.terminal1); command c @t set on inv.terminal1 through the public set; optional strictly older command at the far end; update inv, then gear: reads: inv.t1 = c @t; inv.t2 = -(c) @t; gear.t1 = -(c) @t; gear.t2 = (-(c)) * r @t (issuer's kind and timestamp everywhere)"
stubbed! {
fn c13_chain_invert_gear() {
    let ratio: f32 = kani::any();
    let mut inv = Invert::<Er>::new();
    let mut gear = GearTrain::<Er>::with_ratio_raw(ratio);
    connect(inv.get_terminal_2(), gear.get_terminal_1());
    let c: Datum<Command> = kani::any();
    let old: CSlot = kani::any();
    if let Some(o) = old { kani::assume(o.time.0 < c.time.0); }
    put(&gear.term2, None, old);
    assert!(inv.get_terminal_1().borrow_mut().set(c).is_ok());
    assert!(inv.update().is_ok());
    assert!(gear.update().is_ok());
    let mid = Datum::new(c.time, cneg(c.value));
    let far = Datum::new(c.time, cmul(cneg(c.value), ratio));
    assert!(rc_eq(read_c(&inv.term1), Some(c)));
    assert!(rc_eq(read_c(&inv.term2), Some(mid)));
    assert!(rc_eq(read_c(&gear.term1), Some(mid)));
    assert!(rc_eq(read_c(&gear.term2), Some(far)));
    assert!(same_kind(far.value, c.value));
    reach!();
}
}
