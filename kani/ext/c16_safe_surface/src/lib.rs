//! C16: "raw-pointer variants are only constructible through unsafe fns or static-making macros".  A function
//! contract cannot say that something is NOT expressible; the type checker can: every probe below is an expression by
//! which safe code would get a `Reference` around an arbitrary raw pointer (hence a dangling one), and each must be
//! rejected by rustc.  A probe that compiles is a violation witness (the program itself is the witness).
//!
//! `ReferenceUnsafe`'s variants are public by design (matching on them is the documented use); building
//! `ReferenceUnsafe::Ptr(p)` is harmless because borrowing a `ReferenceUnsafe` is `unsafe`.  The probes therefore
//! target the step from `ReferenceUnsafe` / raw pointers to the SAFE wrapper `Reference`.
#![allow(unexpected_cfgs, unused_imports, dead_code)]
use rrtk::reference::ReferenceUnsafe;
use rrtk::*;
use std::sync::{Mutex, RwLock};

/// control: the safe constructors exist and this crate builds against rrtk without any probe
pub fn control() -> Reference<u8> {
    rc_ref_cell_reference(0u8)
}

//@probe name=c16_probe_into_from_reference_unsafe cfg=verif_probe_1 clause="safe code cannot convert a ReferenceUnsafe (whose Ptr variant anyone can build around any raw pointer) into a Reference: `ReferenceUnsafe::Ptr(p).into()` / `Reference::from(..)` do not type-check"
#[cfg(verif_probe_1)]
pub fn probe_1(p: *mut u8) -> Reference<u8> {
    ReferenceUnsafe::Ptr(p).into()
}

//@probe name=c16_probe_from_ptr_without_unsafe cfg=verif_probe_2 clause="`Reference::from_ptr(p)` outside an unsafe block is rejected (the constructor is an unsafe fn)"
#[cfg(verif_probe_2)]
pub fn probe_2(p: *mut u8) -> Reference<u8> {
    Reference::from_ptr(p)
}

//@probe name=c16_probe_raw_pointer_into cfg=verif_probe_3 clause="a raw pointer does not convert into a Reference with `.into()`"
#[cfg(verif_probe_3)]
pub fn probe_3(p: *mut u8) -> Reference<u8> {
    p.into()
}

//@probe name=c16_probe_from_ptr_rw_lock_without_unsafe cfg=verif_probe_4 clause="`Reference::from_ptr_rw_lock(p)` outside an unsafe block is rejected"
#[cfg(verif_probe_4)]
pub fn probe_4(p: *const RwLock<u8>) -> Reference<u8> {
    Reference::from_ptr_rw_lock(p)
}

//@probe name=c16_probe_from_ptr_mutex_without_unsafe cfg=verif_probe_5 clause="`Reference::from_ptr_mutex(p)` outside an unsafe block is rejected"
#[cfg(verif_probe_5)]
pub fn probe_5(p: *const Mutex<u8>) -> Reference<u8> {
    Reference::from_ptr_mutex(p)
}

//@probe name=c16_probe_tuple_constructor cfg=verif_probe_6 clause="the wrapper's field is private: `Reference(ReferenceUnsafe::Ptr(p))` is rejected"
#[cfg(verif_probe_6)]
pub fn probe_6(p: *mut u8) -> Reference<u8> {
    Reference(ReferenceUnsafe::Ptr(p))
}

//@probe name=c16_probe_safe_borrow_of_reference_unsafe cfg=verif_probe_7 clause="borrowing through a ReferenceUnsafe outside an unsafe block is rejected (`ReferenceUnsafe::borrow` is an unsafe fn)"
#[cfg(verif_probe_7)]
pub fn probe_7(p: *mut u8) -> u8 {
    *ReferenceUnsafe::Ptr(p).borrow()
}
