//! A `#![no_std]` library without features that converts the References it is handed with rrtk's `to_dyn!`.
//! The name `std` does not resolve in this crate, so an expansion that mentions `std::...` (instead of going
//! through `$crate`) does not compile here.
#![no_std]
#![allow(unexpected_cfgs)]
use rrtk::*;

pub trait Tr {
    fn read(&self) -> u32;
    fn write(&mut self, v: u32);
}
pub struct S {
    pub pad: u8,
    pub v: u32,
}
impl Tr for S {
    fn read(&self) -> u32 {
        self.v
    }
    fn write(&mut self, v: u32) {
        self.v = v;
    }
}
/// The only use of `to_dyn!`; with `--cfg verif_no_to_dyn` everything else still type-checks against rrtk's API.
pub fn convert(r: Reference<S>) -> Reference<dyn Tr> {
    #[cfg(not(verif_no_to_dyn))]
    {
        to_dyn!(Tr, r)
    }
    #[cfg(verif_no_to_dyn)]
    {
        let _ = r;
        unimplemented!()
    }
}
