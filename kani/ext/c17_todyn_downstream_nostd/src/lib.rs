//! C17 (external part): `to_dyn!` expanded in a `#![no_std]` crate (nostd_lib) while rrtk is built with `std`,
//! so that `Reference` has all its variants; this std crate builds one Reference of each variant the macro lists,
//! has the no_std library convert it, and checks that the result aliases the source.
//!
//! Run (after substituting RRTK_PATH in both Cargo.toml files):  cargo kani --harness <name>   /   cargo test
#![allow(unexpected_cfgs)]

#[cfg(any(kani, test))]
mod body {
    use c17_nostd_lib::{convert, Tr, S};
    use rrtk::*;
    use std::sync::RwLock;

    #[derive(Clone, Copy)]
    pub struct In {
        pub pad: u8,
        pub v0: u32,
        pub x: u32,
        pub y: u32,
        pub z: u32,
    }
    fn aliases(d: Reference<dyn Tr>, keep: Reference<S>, i: In) {
        assert!(d.borrow().read() == i.v0);
        d.borrow_mut().write(i.x);
        assert!(keep.borrow().v == i.x);
        keep.borrow_mut().v = i.y;
        assert!(d.borrow().read() == i.y);
        let d2 = d.clone();
        drop(d);
        d2.borrow_mut().write(i.z);
        assert!(keep.borrow().v == i.z);
        // the converted handle alone keeps the object alive (C16: no dangling Reference from safe code)
        drop(keep);
        assert!(d2.borrow().read() == i.z);
    }
    pub fn rc_case(i: In) {
        let r = rc_ref_cell_reference(S { pad: i.pad, v: i.v0 });
        let keep = r.clone();
        aliases(convert(r), keep, i);
    }
    pub fn ptr_rw_lock_case(i: In) {
        let lock = RwLock::new(S { pad: i.pad, v: i.v0 });
        let r = unsafe { Reference::from_ptr_rw_lock(&lock as *const RwLock<S>) };
        let keep = r.clone();
        aliases(convert(r), keep, i);
    }
    pub fn ptr_case(i: In) {
        let mut target = S { pad: i.pad, v: i.v0 };
        let r = unsafe { Reference::from_ptr(&mut target as *mut S) };
        let keep = r.clone();
        aliases(convert(r), keep, i);
    }
}

#[cfg(kani)]
mod proofs {
    use super::body::*;
    fn any_in() -> In {
        In { pad: kani::any(), v0: kani::any(), x: kani::any(), y: kani::any(), z: kani::any() }
    }

    //@ob fn="to_dyn! / __to_dyn_alloc! (RcRefCell arm)" at=src/reference.rs:373 prop=C17,C16 clause="to_dyn! expanded in a #![no_std] crate (rrtk built with std): an Rc-backed Reference converts without panic and aliases the source"
    #[kani::proof]
    fn c17_ext_to_dyn_rc_from_no_std_crate() {
        rc_case(any_in());
        kani::cover!(true, "reach-end");
    }

    //@ob fn="to_dyn! / __to_dyn_std! (PtrRwLock arm)" at=src/reference.rs:401 clause="to_dyn! expanded in a #![no_std] crate (rrtk built with std): a PtrRwLock Reference converts without panic and aliases the source"
    #[kani::proof]
    fn c17_ext_to_dyn_ptr_rw_lock_from_no_std_crate() {
        ptr_rw_lock_case(any_in());
        kani::cover!(true, "reach-end");
    }

    //@ob fn="to_dyn! (Ptr arm)" at=src/reference.rs:349 clause="to_dyn! expanded in a #![no_std] crate (rrtk built with std): a Ptr Reference converts without panic and aliases the source"
    #[kani::proof]
    fn c17_ext_to_dyn_ptr_from_no_std_crate() {
        ptr_case(any_in());
        kani::cover!(true, "reach-end");
    }
}

#[cfg(test)]
mod native {
    use super::body::*;
    const I: In = In { pad: 1, v0: 2, x: 3, y: 4, z: 5 };
    #[test]
    fn c17_ext_to_dyn_rc_from_no_std_crate_native() {
        rc_case(I);
    }
    #[test]
    fn c17_ext_to_dyn_ptr_rw_lock_from_no_std_crate_native() {
        ptr_rw_lock_case(I);
    }
    #[test]
    fn c17_ext_to_dyn_ptr_from_no_std_crate_native() {
        ptr_case(I);
    }
}
