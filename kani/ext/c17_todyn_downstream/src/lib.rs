//! C17 (external part): `to_dyn!` expanded in a crate OTHER than rrtk that declares NO features.
//!
//! rrtk is built with `std` (so `Reference` has all six variants); this crate has no `[features]` at all.
//! Property C17 demands that the conversion "succeeds for every variant the macro lists, regardless of which
//! features the calling crate itself declares, and the result aliases the same object".
//!
//! History: on rrtk 0.6.1 before fix 8a9f062 the macro's `#[cfg(feature = "alloc")]` / `#[cfg(feature = "std")]`
//! arms were evaluated where the macro is expanded, i.e. against THIS crate's (non-existent) features, and
//!   c17_ext_to_dyn_rc_from_featureless_crate / c17_ext_to_dyn_ptr_rw_lock_from_featureless_crate
//! FAILED for every input with "not implemented" (`_ => unimplemented!()`), natively too (`cargo test`).
//! Since 8a9f062 the feature-dependent arms live in helper macros selected by rrtk's own features.
//!
//! Run (after substituting RRTK_PATH in Cargo.toml):  cargo kani --harness <name>   /   cargo test
//! Expected now: all three harnesses SUCCESSFUL, all three native tests ok.
#![allow(unexpected_cfgs)]

/// The scenarios, parameterised by their input values so that the Kani harnesses (symbolic values) and the
/// native tests (concrete values: replay against the real code with plain rustc) run the same text.
#[cfg(any(kani, test))]
mod body {
    use rrtk::*;
    use std::sync::RwLock;

    pub trait Tr {
        fn read(&self) -> u32;
        fn write(&mut self, v: u32);
    }
    pub struct S {
        pub pad: u8,
        pub v: u32,
    }
    impl Tr for S {
        fn read(&self) -> u32 {
            self.v
        }
        fn write(&mut self, v: u32) {
            self.v = v;
        }
    }
    /// Input values of one scenario.
    #[derive(Clone, Copy)]
    pub struct In {
        pub pad: u8,
        pub v0: u32,
        pub x: u32,
        pub y: u32,
        pub z: u32,
    }
    /// The only use of `to_dyn!`; with `--cfg verif_no_to_dyn` everything else still type-checks against rrtk's API
    /// (the driver uses this to tell "the expansion does not compile" from "something else does not compile").
    fn convert(r: Reference<S>) -> Reference<dyn Tr> {
        #[cfg(not(verif_no_to_dyn))]
        {
            to_dyn!(Tr, r)
        }
        #[cfg(verif_no_to_dyn)]
        {
            let _ = r;
            unimplemented!()
        }
    }
    /// Postcondition of the conversion, through the public API only: the trait-object handle and a clone of the
    /// source taken before the conversion are one object (writes through either are read through the other).
    fn aliases(d: Reference<dyn Tr>, keep: Reference<S>, i: In) {
        assert!(d.borrow().read() == i.v0);
        d.borrow_mut().write(i.x);
        assert!(keep.borrow().v == i.x);
        keep.borrow_mut().v = i.y;
        assert!(d.borrow().read() == i.y);
        let d2 = d.clone();
        drop(d);
        d2.borrow_mut().write(i.z);
        assert!(keep.borrow().v == i.z);
        // the converted handle alone keeps the object alive (C16: no dangling Reference from safe code)
        drop(keep);
        assert!(d2.borrow().read() == i.z);
    }
    /// The macro argument is an expression with a side effect (popping a handle off a stack): it must be evaluated
    /// exactly once, and the result must alias the object of the handle that expression produced.
    pub fn rc_side_effect_case(i: In) {
        let first = rc_ref_cell_reference(S { pad: i.pad, v: i.v0 });
        let second = rc_ref_cell_reference(S { pad: i.pad, v: i.x });
        let keep_first = first.clone();
        let keep_second = second.clone();
        let mut stack = std::vec![first, second];
        let d: Reference<dyn Tr> = convert_expr(&mut stack);
        assert!(stack.len() == 1);
        assert!(d.borrow().read() == i.x);
        d.borrow_mut().write(i.y);
        assert!(keep_second.borrow().v == i.y);
        assert!(keep_first.borrow().v == i.v0);
    }
    fn convert_expr(stack: &mut std::vec::Vec<Reference<S>>) -> Reference<dyn Tr> {
        #[cfg(not(verif_no_to_dyn))]
        {
            to_dyn!(Tr, stack.pop().unwrap())
        }
        #[cfg(verif_no_to_dyn)]
        {
            let _ = stack.pop();
            unimplemented!()
        }
    }
    pub fn rc_case(i: In) {
        let r = rc_ref_cell_reference(S { pad: i.pad, v: i.v0 });
        let keep = r.clone();
        aliases(convert(r), keep, i);
    }
    pub fn ptr_rw_lock_case(i: In) {
        let lock = RwLock::new(S { pad: i.pad, v: i.v0 });
        let r = unsafe { Reference::from_ptr_rw_lock(&lock as *const RwLock<S>) };
        let keep = r.clone();
        aliases(convert(r), keep, i);
    }
    pub fn ptr_case(i: In) {
        let mut target = S { pad: i.pad, v: i.v0 };
        let r = unsafe { Reference::from_ptr(&mut target as *mut S) };
        let keep = r.clone();
        aliases(convert(r), keep, i);
    }
}

#[cfg(kani)]
mod proofs {
    use super::body::*;
    fn any_in() -> In {
        In { pad: kani::any(), v0: kani::any(), x: kani::any(), y: kani::any(), z: kani::any() }
    }

    //@ob fn="to_dyn! / __to_dyn_alloc! (RcRefCell arm)" at=src/reference.rs:373 prop=C17,C16 clause="to_dyn! on an Rc-backed Reference expanded in a crate without a feature named alloc does not panic and aliases the source (was the witness of the defect fixed by 8a9f062: before the fix `_ => unimplemented!()` was reached for every input)"
    #[kani::proof]
    fn c17_ext_to_dyn_rc_from_featureless_crate() {
        rc_case(any_in());
        kani::cover!(true, "reach-end");
    }

    //@ob fn="to_dyn!" at=src/reference.rs:346 clause="the macro evaluates its Reference argument exactly once: with an argument expression that pops a handle off a stack, one handle is popped and the result aliases that handle's object (not the next one's)"
    #[kani::proof]
    #[kani::unwind(4)]
    fn c17_ext_to_dyn_argument_evaluated_once() {
        rc_side_effect_case(any_in());
        kani::cover!(true, "reach-end");
    }

    //@ob fn="to_dyn! / __to_dyn_std! (PtrRwLock arm)" at=src/reference.rs:401 clause="to_dyn! on a PtrRwLock Reference expanded in a crate without a feature named std does not panic and aliases the source (failed before fix 8a9f062 for the same reason)"
    #[kani::proof]
    fn c17_ext_to_dyn_ptr_rw_lock_from_featureless_crate() {
        ptr_rw_lock_case(any_in());
        kani::cover!(true, "reach-end");
    }

    //@ob fn="to_dyn! (Ptr arm)" at=src/reference.rs:349 clause="to_dyn! on a Ptr Reference expanded in a feature-less downstream crate does not panic and aliases the source (this arm has no cfg)"
    #[kani::proof]
    fn c17_ext_to_dyn_ptr_from_featureless_crate() {
        ptr_case(any_in());
        kani::cover!(true, "reach-end");
    }
}

/// Native replay (`cargo test`): the same scenarios on concrete values, compiled by plain rustc.
#[cfg(test)]
mod native {
    use super::body::*;
    const I: In = In { pad: 1, v0: 2, x: 3, y: 4, z: 5 };
    #[test]
    fn c17_ext_to_dyn_rc_from_featureless_crate_native() {
        rc_case(I);
    }
    #[test]
    fn c17_ext_to_dyn_argument_evaluated_once_native() {
        rc_side_effect_case(I);
    }
    #[test]
    fn c17_ext_to_dyn_ptr_rw_lock_from_featureless_crate_native() {
        ptr_rw_lock_case(I);
    }
    #[test]
    fn c17_ext_to_dyn_ptr_from_featureless_crate_native() {
        ptr_case(I);
    }
}
