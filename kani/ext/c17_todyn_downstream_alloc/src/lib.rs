//! C17 (external part): `to_dyn!` expanded in a feature-less crate while rrtk itself is built with `alloc` and
//! WITHOUT `std`.  In that build `Reference` has exactly the `Ptr` and `RcRefCell` variants, and the macro must
//! convert both ("succeeds for every variant the macro lists").  The helper macros behind `to_dyn!` are selected
//! by rrtk's own features; this crate pins the selection for the alloc-only build, which no harness inside the
//! rrtk package sees when the package is verified with `std`.
//!
//! The single `to_dyn!` call sits behind `cfg(not(verif_no_to_dyn))`; with `--cfg verif_no_to_dyn` the rest of
//! this crate still type-checks against rrtk's API (the driver uses this to tell "the expansion does not compile"
//! from "something else does not compile").
//!
//! Run (after substituting RRTK_PATH in Cargo.toml):  cargo kani --harness <name>   /   cargo test
#![allow(unexpected_cfgs)]

#[cfg(any(kani, test))]
mod body {
    use rrtk::*;

    pub trait Tr {
        fn read(&self) -> u32;
        fn write(&mut self, v: u32);
    }
    pub struct S {
        pub pad: u8,
        pub v: u32,
    }
    impl Tr for S {
        fn read(&self) -> u32 {
            self.v
        }
        fn write(&mut self, v: u32) {
            self.v = v;
        }
    }
    #[derive(Clone, Copy)]
    pub struct In {
        pub pad: u8,
        pub v0: u32,
        pub x: u32,
        pub y: u32,
        pub z: u32,
    }
    fn convert(r: Reference<S>) -> Reference<dyn Tr> {
        #[cfg(not(verif_no_to_dyn))]
        {
            to_dyn!(Tr, r)
        }
        #[cfg(verif_no_to_dyn)]
        {
            let _ = r;
            unimplemented!()
        }
    }
    /// The trait-object handle (and a clone of it that outlives it) reads what is written through a clone of the
    /// source taken before the conversion.  Writes THROUGH the trait-object handle are exercised by the std-configured
    /// downstream crates only: with an alloc-only rrtk CBMC does not prune RefCell's "already borrowed" formatting
    /// path behind a `dyn` mutable borrow and the query does not finish (7M variables at unwind 3).
    fn aliases(d: Reference<dyn Tr>, keep: Reference<S>, i: In) {
        assert!(d.borrow().read() == i.v0);
        keep.borrow_mut().v = i.x;
        assert!(d.borrow().read() == i.x);
        let d2 = d.clone();
        drop(d);
        keep.borrow_mut().v = i.z;
        assert!(d2.borrow().read() == i.z);
        drop(keep);
        assert!(d2.borrow().read() == i.z);
    }
    pub fn rc_case(i: In) {
        let r = rc_ref_cell_reference(S { pad: i.pad, v: i.v0 });
        let keep = r.clone();
        aliases(convert(r), keep, i);
    }
    pub fn ptr_case(i: In) {
        let mut target = S { pad: i.pad, v: i.v0 };
        let r = unsafe { Reference::from_ptr(&mut target as *mut S) };
        let keep = r.clone();
        aliases(convert(r), keep, i);
    }
}

#[cfg(kani)]
mod proofs {
    use super::body::*;
    fn any_in() -> In {
        In { pad: kani::any(), v0: kani::any(), x: kani::any(), y: kani::any(), z: kani::any() }
    }

    //@ob fn="to_dyn! / __to_dyn_alloc! (RcRefCell arm)" at=src/reference.rs:373 prop=C17,C16 clause="rrtk built with alloc and without std: to_dyn! on an Rc-backed Reference expanded in a feature-less crate does not panic and the result (and its clone) reads every write made through a clone of the source, also after the source handle is dropped"
    #[kani::proof]
    fn c17_ext_to_dyn_rc_alloc_only_rrtk() {
        rc_case(any_in());
        kani::cover!(true, "reach-end");
    }

    //@ob fn="to_dyn! (Ptr arm)" at=src/reference.rs:349 clause="rrtk built with alloc and without std: to_dyn! on a Ptr Reference expanded in a feature-less crate does not panic and the result (and its clone) reads every write made through a clone of the source, also after the source handle is dropped"
    #[kani::proof]
    fn c17_ext_to_dyn_ptr_alloc_only_rrtk() {
        ptr_case(any_in());
        kani::cover!(true, "reach-end");
    }
}

/// Native replay (`cargo test`): the same scenarios on concrete values, compiled by plain rustc.
#[cfg(test)]
mod native {
    use super::body::*;
    const I: In = In { pad: 1, v0: 2, x: 3, y: 4, z: 5 };
    #[test]
    fn c17_ext_to_dyn_rc_alloc_only_rrtk_native() {
        rc_case(I);
    }
    #[test]
    fn c17_ext_to_dyn_ptr_alloc_only_rrtk_native() {
        ptr_case(I);
    }
}
