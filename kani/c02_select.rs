//@host src/streams.rs
//@config dev
// C02 / C03 (stream level): `Latest` (newest-of) and `Expirer`.  Inputs are `Scripted<Tok>` getters / a scripted
// `Clock` whose single outputs are fully symbolic, so every assignment of {Err(FromNone), Err(Other(e)), Ok(None),
// Ok(Some(datum))} and every order of the timestamps (and of age versus limit) is covered at once.
#![allow(unused_imports, dead_code)]
use super::*;
use crate::verif_support::*;
use crate::*;

type O = Output<Tok, Er>;

// ---------------------------------------------------------------------------------------------------------------
// Latest
// ---------------------------------------------------------------------------------------------------------------
/// Exact documented outcome of `Latest` ("returns the output of whichever input has the latest time"; statement:
/// errored and absent inputs are skipped, absent only when no input is present): the result is never an error; it
/// is the present input carrying the newest timestamp; among several inputs carrying that same newest timestamp
/// the earliest in input order is returned (the crate's convention everywhere: `latest()` prefers its first
/// argument on a tie, `replace_if_older_than` replaces only when strictly newer).
/// Written as two passes (maximum, then first index attaining it), not as the running selection of the body.
fn spec_latest<const C: usize>(inp: &[O; C]) -> O {
    let mut newest: Option<i64> = None;
    let mut i = 0;
    while i < C {
        if let Ok(Some(d)) = inp[i] {
            newest = Some(match newest {
                None => d.time.0,
                Some(m) => {
                    if d.time.0 > m {
                        d.time.0
                    } else {
                        m
                    }
                }
            });
        }
        i += 1;
    }
    let newest = match newest {
        None => return Ok(None),
        Some(m) => m,
    };
    let mut i = 0;
    while i < C {
        if let Ok(Some(d)) = inp[i] {
            if d.time.0 == newest {
                return Ok(Some(d));
            }
        }
        i += 1;
    }
    Ok(None)
}
/// C03 selection clause, indifferent to how ties are resolved: the result is not an error; if it is present it is
/// one of the present candidates (time and value) and no present candidate is strictly newer; it is absent exactly
/// when there is no present candidate.
fn latest_selection_ok<const C: usize>(inp: &[O; C], r: &O) -> bool {
    let got = match r {
        Ok(g) => g,
        Err(_) => return false,
    };
    let mut any_present = false;
    let mut member = false;
    let mut none_newer = true;
    let mut i = 0;
    while i < C {
        if let Ok(Some(d)) = inp[i] {
            any_present = true;
            if let Some(g) = got {
                if d == *g {
                    member = true;
                }
                if d.time.0 > g.time.0 {
                    none_newer = false;
                }
            }
        }
        i += 1;
    }
    match got {
        None => !any_present,
        Some(_) => member && none_newer,
    }
}

macro_rules! latest_spec_harness {
    ($name:ident, $c:expr, $unw:expr, [$($s:ident),+]) => {
        #[kani::proof]
        #[kani::unwind($unw)]
        fn $name() {
            $(let mut $s = Scripted::<Tok>::new(any_output());)+
            let inp: [O; $c] = [$($s.out),+];
            let stream = Latest::<Tok, $c, Er>::new([$(rf_dyn(&mut $s)),+]);
            let r1 = stream.get();
            assert!(r1 == spec_latest(&inp));
            kani::cover!(r1 == Ok(None), "result absent");
            kani::cover!(matches!(r1, Ok(Some(_))), "result present");
            reach!();
        }
    };
}
// purity, kept apart from the spec comparison to keep each formula small
macro_rules! latest_pure_harness {
    ($name:ident, $c:expr, $unw:expr, [$($s:ident),+]) => {
        #[kani::proof]
        #[kani::unwind($unw)]
        fn $name() {
            $(let mut $s = Scripted::<Tok>::new(any_output());)+
            let inp: [O; $c] = [$($s.out),+];
            let stream = Latest::<Tok, $c, Er>::new([$(rf_dyn(&mut $s)),+]);
            let r1 = stream.get();
            let r2 = stream.get();
            assert!(r2 == r1);
            let after: [O; $c] = [$($s.out),+];
            assert!(after == inp);
            $(assert!($s.updates == 0);)+
            kani::cover!(matches!(r1, Ok(Some(_))), "result present");
            reach!();
        }
    };
}
macro_rules! latest_newest_harness {
    ($name:ident, $c:expr, $unw:expr, [$($s:ident),+]) => {
        #[kani::proof]
        #[kani::unwind($unw)]
        fn $name() {
            $(let mut $s = Scripted::<Tok>::new(any_output());)+
            let inp: [O; $c] = [$($s.out),+];
            let stream = Latest::<Tok, $c, Er>::new([$(rf_dyn(&mut $s)),+]);
            let r = stream.get();
            assert!(latest_selection_ok(&inp, &r));
            kani::cover!(r == Ok(None), "result absent");
            kani::cover!(matches!(r, Ok(Some(_))), "result present");
            reach!();
        }
    };
}

//@ob fn="<Latest<T,C,E> as Getter<T,E>>::get" at=src/streams.rs:26 prop=C02,C03 instance="arity 1 (const generic; complete for this C)" clause="C=1, all inputs symbolic at once: get()==spec: never an error (errored inputs skipped), absent inputs skipped, absent iff no input present, otherwise the present input with the newest timestamp, the earliest such input on equal timestamps"
latest_spec_harness!(c02_latest_c1_spec, 1, 3, [s0]);
//@ob fn="<Latest<T,C,E> as Getter<T,E>>::get" at=src/streams.rs:26 prop=C02,C03 instance="arity 2 (const generic; complete for this C)" clause="C=2, all inputs symbolic at once: get()==spec: never an error (errored inputs skipped), absent inputs skipped, absent iff no input present, otherwise the present input with the newest timestamp, the earliest such input on equal timestamps"
latest_spec_harness!(c02_latest_c2_spec, 2, 4, [s0, s1]);
//@ob fn="<Latest<T,C,E> as Getter<T,E>>::get" at=src/streams.rs:26 prop=C02,C03 instance="arity 3 (const generic; complete for this C)" clause="C=3, all inputs symbolic at once: get()==spec: never an error (errored inputs skipped), absent inputs skipped, absent iff no input present, otherwise the present input with the newest timestamp, the earliest such input on equal timestamps"
latest_spec_harness!(c02_latest_c3_spec, 3, 5, [s0, s1, s2]);
//@ob fn="<Latest<T,C,E> as Getter<T,E>>::get" at=src/streams.rs:26 prop=C02,C03 instance="arity 4 (const generic; complete for this C)" clause="C=4, all inputs symbolic at once: get()==spec: never an error (errored inputs skipped), absent inputs skipped, absent iff no input present, otherwise the present input with the newest timestamp, the earliest such input on equal timestamps"
latest_spec_harness!(c02_latest_c4_spec, 4, 6, [s0, s1, s2, s3]);
//@ob fn="<Latest<T,C,E> as Getter<T,E>>::get" at=src/streams.rs:26 prop=C02,C03 instance="arity 5 (const generic; complete for this C)" clause="C=5, all inputs symbolic at once: get()==spec: never an error (errored inputs skipped), absent inputs skipped, absent iff no input present, otherwise the present input with the newest timestamp, the earliest such input on equal timestamps"
latest_spec_harness!(c02_latest_c5_spec, 5, 7, [s0, s1, s2, s3, s4]);
//@ob fn="<Latest<T,C,E> as Getter<T,E>>::get" at=src/streams.rs:26 prop=C02,C03 tier=thorough instance="arity 6 (const generic; complete for this C)" clause="C=6, all inputs symbolic at once: get()==spec (as for C=1..5)"
latest_spec_harness!(c02_latest_c6_spec, 6, 8, [s0, s1, s2, s3, s4, s5]);
//@ob fn="<Latest<T,C,E> as Getter<T,E>>::get" at=src/streams.rs:26 prop=C02,C03 tier=thorough instance="arity 7 (const generic; complete for this C)" clause="C=7, all inputs symbolic at once: get()==spec (as for C=1..5)"
latest_spec_harness!(c02_latest_c7_spec, 7, 9, [s0, s1, s2, s3, s4, s5, s6]);
//@ob fn="<Latest<T,C,E> as Getter<T,E>>::get" at=src/streams.rs:26 prop=C02,C03 tier=thorough instance="arity 8 (const generic; complete for this C)" clause="C=8, all inputs symbolic at once: get()==spec (as for C=1..5)"
latest_spec_harness!(c02_latest_c8_spec, 8, 10, [s0, s1, s2, s3, s4, s5, s6, s7]);

//@ob fn="<Latest<T,C,E> as Getter<T,E>>::get" at=src/streams.rs:26 prop=C02,C03 instance="arity 1 (const generic; complete for this C)" clause="C=1 (C03 selection, tie-agnostic): result is never an error; if present it equals one of the present inputs and no present input is strictly newer; absent iff no input is present"
latest_newest_harness!(c02_latest_c1_newest, 1, 3, [s0]);
//@ob fn="<Latest<T,C,E> as Getter<T,E>>::get" at=src/streams.rs:26 prop=C02,C03 instance="arity 2 (const generic; complete for this C)" clause="C=2 (C03 selection, tie-agnostic): result is never an error; if present it equals one of the present inputs and no present input is strictly newer; absent iff no input is present"
latest_newest_harness!(c02_latest_c2_newest, 2, 4, [s0, s1]);
//@ob fn="<Latest<T,C,E> as Getter<T,E>>::get" at=src/streams.rs:26 prop=C02,C03 instance="arity 3 (const generic; complete for this C)" clause="C=3 (C03 selection, tie-agnostic): result is never an error; if present it equals one of the present inputs and no present input is strictly newer; absent iff no input is present"
latest_newest_harness!(c02_latest_c3_newest, 3, 5, [s0, s1, s2]);
//@ob fn="<Latest<T,C,E> as Getter<T,E>>::get" at=src/streams.rs:26 prop=C02,C03 instance="arity 4 (const generic; complete for this C)" clause="C=4 (C03 selection, tie-agnostic): result is never an error; if present it equals one of the present inputs and no present input is strictly newer; absent iff no input is present"
latest_newest_harness!(c02_latest_c4_newest, 4, 6, [s0, s1, s2, s3]);
//@ob fn="<Latest<T,C,E> as Getter<T,E>>::get" at=src/streams.rs:26 prop=C02,C03 instance="arity 5 (const generic; complete for this C)" clause="C=5 (C03 selection, tie-agnostic): result is never an error; if present it equals one of the present inputs and no present input is strictly newer; absent iff no input is present"
latest_newest_harness!(c02_latest_c5_newest, 5, 7, [s0, s1, s2, s3, s4]);

//@ob fn="<Latest<T,C,E> as Getter<T,E>>::get" at=src/streams.rs:26 prop=C02 instance="arity 1 (const generic; complete for this C)" clause="C=1: purity: a second get() returns a result equal to the first, every input still holds the output it had and was not updated"
latest_pure_harness!(c02_latest_c1_pure, 1, 3, [s0]);
//@ob fn="<Latest<T,C,E> as Getter<T,E>>::get" at=src/streams.rs:26 prop=C02 instance="arity 2 (const generic; complete for this C)" clause="C=2: purity: a second get() returns a result equal to the first, every input still holds the output it had and was not updated"
latest_pure_harness!(c02_latest_c2_pure, 2, 4, [s0, s1]);
//@ob fn="<Latest<T,C,E> as Getter<T,E>>::get" at=src/streams.rs:26 prop=C02 instance="arity 3 (const generic; complete for this C)" clause="C=3: purity: a second get() returns a result equal to the first, every input still holds the output it had and was not updated"
latest_pure_harness!(c02_latest_c3_pure, 3, 5, [s0, s1, s2]);
//@ob fn="<Latest<T,C,E> as Getter<T,E>>::get" at=src/streams.rs:26 prop=C02 instance="arity 4 (const generic; complete for this C)" clause="C=4: purity: a second get() returns a result equal to the first, every input still holds the output it had and was not updated"
latest_pure_harness!(c02_latest_c4_pure, 4, 6, [s0, s1, s2, s3]);
//@ob fn="<Latest<T,C,E> as Getter<T,E>>::get" at=src/streams.rs:26 prop=C02 instance="arity 5 (const generic; complete for this C)" clause="C=5: purity: a second get() returns a result equal to the first, every input still holds the output it had and was not updated"
latest_pure_harness!(c02_latest_c5_pure, 5, 7, [s0, s1, s2, s3, s4]);

// ---------------------------------------------------------------------------------------------------------------
// Expirer
// ---------------------------------------------------------------------------------------------------------------
/// Documented outcome of `Expirer` ("expires data that are too old to be useful"): the input's error first, then
/// the clock's, unchanged; absent stays absent; a present datum is dropped (absent) exactly when its age
/// `now - datum.time` exceeds `max_time_delta` (age computed in the integers, not in i64) and passed through
/// unchanged otherwise (age == limit is still good).
fn spec_expirer(input: O, now: TimeOutput<Er>, max_time_delta: Time) -> O {
    match input {
        Err(e) => Err(e),
        Ok(None) => Ok(None),
        Ok(Some(d)) => match now {
            Err(e) => Err(e),
            Ok(t) => {
                let age = (t.0 as i128) - (d.time.0 as i128);
                if age > max_time_delta.0 as i128 {
                    Ok(None)
                } else {
                    Ok(Some(d))
                }
            }
        },
    }
}
//@ob fn="<Expirer<T,G,TG,E> as Getter<T,E>>::get" at=src/streams.rs:81 prop=C02 clause="get()==spec for every input category x clock category x any i64 limit: input error first, then clock error, unchanged; absent => absent; present => absent iff now - datum.time > max_time_delta (strict; equal age passes), else the datum unchanged. A7: now - datum.time is assumed not to overflow i64 (it panics in debug builds otherwise). The one cell the docs leave open (input absent AND clock error) accepts Ok(None) or the clock's error. Second get() equal, inputs unchanged"
#[kani::proof]
fn c02_expirer_spec() {
    let mut input = Scripted::<Tok>::new(any_output());
    let mut clock = Clock::new(any_time_output());
    let max_time_delta: Time = kani::any();
    let (i0, c0) = (input.out, clock.out);
    if let (Ok(Some(d)), Ok(now)) = (i0, c0) {
        // A7
        kani::assume(now.0.checked_sub(d.time.0).is_some());
    }
    let stream = Expirer::<Tok, Scripted<Tok>, Clock, Er>::new(rf(&mut input), rf(&mut clock), max_time_delta);
    let r1 = stream.get();
    match (i0, c0) {
        (Ok(None), Err(e)) => assert!(r1 == Ok(None) || r1 == Err(e)),
        _ => assert!(r1 == spec_expirer(i0, c0, max_time_delta)),
    }
    // purity
    let r2 = stream.get();
    assert!(r2 == r1);
    assert!(input.out == i0 && clock.out == c0 && input.updates == 0 && clock.updates == 0);
    kani::cover!(r1.is_err() && i0.is_ok(), "clock error returned");
    kani::cover!(matches!((i0, c0), (Ok(Some(d)), Ok(t)) if (t.0 as i128) - (d.time.0 as i128) == max_time_delta.0 as i128 && r1 == i0), "age == limit passes");
    kani::cover!(matches!((i0, c0), (Ok(Some(d)), Ok(t)) if (t.0 as i128) - (d.time.0 as i128) == max_time_delta.0 as i128 + 1 && r1 == Ok(None)), "age == limit + 1 expires");
    kani::cover!(matches!((i0, c0), (Ok(Some(d)), Ok(t)) if t.0 < d.time.0), "datum from the future");
    reach!();
}
