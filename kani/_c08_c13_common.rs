// Shared by c08_devices.rs and c13_devices.rs through `include!` (the leading underscore keeps the driver from
// treating this file as a harness module of its own).  Everything here lives inside `crate::devices::verif_*`,
// a descendant of both `crate` (Terminal / SettableData private fields) and `crate::devices` (device private fields).
//
// ---- uninterpreted stand-ins for the State / Command operator impls that support.rs does not provide.
// Same construction as support.rs' stub_state_mul_f32: component-wise `fmix` with a tag per operator and per
// component, i.e. a cheap, non-commutative, non-associative bit mix.  A device that produces the expected bits
// for every input has applied exactly these operators to exactly these operands in exactly this order.
pub const T_SADD: u32 = 0x3C6E_F372;
pub const T_SSUB: u32 = 0xA54F_F53A;
pub const T_SNEG: u32 = 0x510E_527F;
pub const T_CNEG: u32 = 0x1F83_D9AB;
pub fn stub_state_add(a: State, b: State) -> State {
    State::new_raw(
        fmix(T_SADD, a.position, b.position),
        fmix(T_SADD ^ 1, a.velocity, b.velocity),
        fmix(T_SADD ^ 2, a.acceleration, b.acceleration),
    )
}
pub fn stub_state_sub(a: State, b: State) -> State {
    State::new_raw(
        fmix(T_SSUB, a.position, b.position),
        fmix(T_SSUB ^ 1, a.velocity, b.velocity),
        fmix(T_SSUB ^ 2, a.acceleration, b.acceleration),
    )
}
pub fn stub_state_neg(a: State) -> State {
    State::new_raw(
        fmix(T_SNEG, a.position, 0.0),
        fmix(T_SNEG ^ 1, a.velocity, 0.0),
        fmix(T_SNEG ^ 2, a.acceleration, 0.0),
    )
}
pub fn stub_command_neg(c: Command) -> Command {
    Command::new(c.into(), fmix(T_CNEG, c.into(), 0.0))
}
// Spec-side names of the operators (the vocabulary of the expression trees in the `clause=` texts):
//   a + b = sadd(a,b)   a - b = ssub(a,b)   -a = sneg(a)   a * f = smul(a,f)   a / f = sdiv(a,f)     on State
//   -c = cneg(c)        c * f = cmul(c,f)   c / f = cdiv(c,f)                                        on Command
pub fn sadd(a: State, b: State) -> State { stub_state_add(a, b) }
pub fn ssub(a: State, b: State) -> State { stub_state_sub(a, b) }
pub fn sneg(a: State) -> State { stub_state_neg(a) }
pub fn smul(a: State, f: f32) -> State { stub_state_mul_f32(a, f) }
pub fn sdiv(a: State, f: f32) -> State { stub_state_div_f32(a, f) }
pub fn cneg(c: Command) -> Command { stub_command_neg(c) }
pub fn cmul(c: Command, f: f32) -> Command { stub_command_mul_f32(c, f) }
pub fn cdiv(c: Command, f: f32) -> Command { stub_command_div_f32(c, f) }

/// Wraps a harness fn: `#[kani::proof]` + every State/Command operator impl replaced by its stand-in.
/// Extra attributes (`#[kani::unwind(k)]`, ...) are passed through.
macro_rules! stubbed {
    ($(#[$m:meta])* fn $name:ident() $body:block) => {
        #[kani::proof]
        #[kani::stub(<State as Add<State>>::add, stub_state_add)]
        #[kani::stub(<State as Sub<State>>::sub, stub_state_sub)]
        #[kani::stub(<State as Neg>::neg, stub_state_neg)]
        #[kani::stub(<State as Mul<f32>>::mul, stub_state_mul_f32)]
        #[kani::stub(<State as Div<f32>>::div, stub_state_div_f32)]
        #[kani::stub(<Command as Neg>::neg, stub_command_neg)]
        #[kani::stub(<Command as Mul<f32>>::mul, stub_command_mul_f32)]
        #[kani::stub(<Command as Div<f32>>::div, stub_command_div_f32)]
        $(#[$m])*
        fn $name() $body
    };
}

pub type Term<'a> = RefCell<Terminal<'a, Er>>;
pub type SSlot = Option<Datum<State>>;
pub type CSlot = Option<Datum<Command>>;

/// Overwrite the terminal's own state slot and own command slot (private fields) with the given values.
pub fn put(t: &Term<'_>, s: SSlot, c: CSlot) {
    let mut b = t.borrow_mut();
    b.settable_data_state.last_request = s;
    b.settable_data_command.last_request = c;
}
/// A terminal's own state slot / own command slot, read directly from the private field.
pub fn slot_s(t: &Term<'_>) -> SSlot { t.borrow().settable_data_state.last_request }
pub fn slot_c(t: &Term<'_>) -> CSlot { t.borrow().settable_data_command.last_request }
/// Terminal reads through the public Getter impls.
pub fn read_s(t: &Term<'_>) -> Output<State, Er> { <Terminal<'_, Er> as Getter<State, Er>>::get(&t.borrow()) }
pub fn read_c(t: &Term<'_>) -> Output<Command, Er> { <Terminal<'_, Er> as Getter<Command, Er>>::get(&t.borrow()) }
/// Links and followed getters of a device terminal are not touched by update (frame).
pub fn unlinked(t: &Term<'_>) -> bool {
    let b = t.borrow();
    b.other.is_none() && b.settable_data_state.following.is_none() && b.settable_data_command.following.is_none()
}

pub fn ds_eq(a: Datum<State>, b: Datum<State>) -> bool { a.time.0 == b.time.0 && state_bits_eq(a.value, b.value) }
pub fn dc_eq(a: Datum<Command>, b: Datum<Command>) -> bool { a.time.0 == b.time.0 && command_bits_eq(a.value, b.value) }
/// Bit equality of slots (timestamps, presence, every f32 bit pattern, command kind).
pub fn ss_eq(a: SSlot, b: SSlot) -> bool {
    match (a, b) { (None, None) => true, (Some(x), Some(y)) => ds_eq(x, y), _ => false }
}
pub fn cs_eq(a: CSlot, b: CSlot) -> bool {
    match (a, b) { (None, None) => true, (Some(x), Some(y)) => dc_eq(x, y), _ => false }
}
pub fn rs_eq(a: Output<State, Er>, b: SSlot) -> bool { match a { Ok(x) => ss_eq(x, b), Err(_) => false } }
pub fn rc_eq(a: Output<Command, Er>, b: CSlot) -> bool { match a { Ok(x) => cs_eq(x, b), Err(_) => false } }
/// Final content of a slot: what the device wrote, else what was there before.
pub fn after_s(written: SSlot, before: SSlot) -> SSlot { match written { Some(w) => Some(w), None => before } }
pub fn after_c(written: CSlot, before: CSlot) -> CSlot { match written { Some(w) => Some(w), None => before } }

/// Terminal state read contract (C09's, restated here for the harnesses with connected partners):
/// own and partner both present: (own + partner)/2 @max; exactly one present: that one; none: None.
pub fn term_read_s(own: SSlot, partner: SSlot) -> SSlot {
    match (own, partner) {
        (Some(a), Some(b)) => Some(Datum::new(tmax(a.time, b.time), sdiv(sadd(a.value, b.value), 2.0))),
        (Some(a), None) => Some(a),
        (None, Some(b)) => Some(b),
        (None, None) => None,
    }
}
/// Terminal command read contract (C09's): newer of own and partner, own wins ties.
pub fn term_read_c(own: CSlot, partner: CSlot) -> CSlot {
    match (own, partner) {
        (Some(a), Some(b)) => if b.time.0 > a.time.0 { Some(b) } else { Some(a) },
        (Some(a), None) => Some(a),
        (None, Some(b)) => Some(b),
        (None, None) => None,
    }
}
