//@host src/devices/wrappers.rs
//@config dev
// C20 -- device wrappers relay data between getters/settables and terminals unaltered.
//
// Private child of `devices::wrappers`: builds the wrappers with struct literals (private fields `inner`,
// `terminal`, `time`, `state`, `command`, `pid`) and, being a descendant of the crate root, builds Terminals
// with arbitrary slot contents (`SettableData.{following,last_request}`, `Terminal.other`).
//
// One-step contracts from an arbitrary terminal pre-state (every slot symbolic, optionally connected to a
// partner terminal with symbolic slots) and an arbitrary inner object (symbolic outcome of every call).  The
// wrappers keep no state of their own besides the terminal (Actuator/GetterState), so the one-step contract
// holds in every round of every history: "one-step => all sequences of rounds" (the property quantifies to 32).
// "What the terminal currently sees" is, by definition, the value of the real combined read
// `<Terminal as Getter<TerminalData>>::get` on that terminal; it is used as the oracle and is itself bit-moved
// data, never recomputed.
#![allow(unused_imports, dead_code, unused_mut)]
use crate::*;
use crate::verif_support::*;
use crate::devices::wrappers::*;
use crate::reference::ReferenceUnsafe;
use crate::streams::control::CommandPID;

// ------------------------------------------------------------------ bit-exact comparisons
fn ods_eq(a: &Option<Datum<State>>, b: &Option<Datum<State>>) -> bool {
    match (a, b) {
        (None, None) => true,
        (Some(x), Some(y)) => x.time.0 == y.time.0 && state_bits_eq(x.value, y.value),
        _ => false,
    }
}
fn odc_eq(a: &Option<Datum<Command>>, b: &Option<Datum<Command>>) -> bool {
    match (a, b) {
        (None, None) => true,
        (Some(x), Some(y)) => x.time.0 == y.time.0 && command_bits_eq(x.value, y.value),
        _ => false,
    }
}
fn os_eq(a: &Option<State>, b: &Option<State>) -> bool {
    match (a, b) {
        (None, None) => true,
        (Some(x), Some(y)) => state_bits_eq(*x, *y),
        _ => false,
    }
}
fn oc_eq(a: &Option<Command>, b: &Option<Command>) -> bool {
    match (a, b) {
        (None, None) => true,
        (Some(x), Some(y)) => command_bits_eq(*x, *y),
        _ => false,
    }
}
fn td_eq(a: &TerminalData, b: &TerminalData) -> bool {
    a.time.0 == b.time.0 && oc_eq(&a.command, &b.command) && os_eq(&a.state, &b.state)
}
fn otd_eq(a: &Option<TerminalData>, b: &Option<TerminalData>) -> bool {
    match (a, b) {
        (None, None) => true,
        (Some(x), Some(y)) => td_eq(x, y),
        _ => false,
    }
}
fn res_eq(a: &NothingOrError<Er>, b: &NothingOrError<Er>) -> bool {
    match (a, b) {
        (Ok(()), Ok(())) => true,
        (Err(Error::FromNone), Err(Error::FromNone)) => true,
        (Err(Error::Other(x)), Err(Error::Other(y))) => x == y,
        _ => false,
    }
}
fn any_result() -> NothingOrError<Er> {
    if kani::any() {
        Ok(())
    } else {
        Err(kani::any())
    }
}

// ------------------------------------------------------------------ terminals with arbitrary contents
fn any_slots_terminal<'a>() -> Terminal<'a, Er> {
    Terminal {
        settable_data_state: SettableData { following: None, last_request: kani::any() },
        settable_data_command: SettableData { following: None, last_request: kani::any() },
        other: None,
    }
}
/// Snapshot of everything a Terminal holds (slots bit-exact, identity of the link).
struct Snap {
    state: Option<Datum<State>>,
    command: Option<Datum<Command>>,
    other: *const (),
    follows_state: bool,
    follows_command: bool,
}
fn snap(t: &Terminal<'_, Er>) -> Snap {
    Snap {
        state: t.settable_data_state.last_request,
        command: t.settable_data_command.last_request,
        other: match t.other {
            Some(o) => o as *const RefCell<Terminal<'_, Er>> as *const (),
            None => core::ptr::null(),
        },
        follows_state: t.settable_data_state.following.is_some(),
        follows_command: t.settable_data_command.following.is_some(),
    }
}
fn snap_eq(a: &Snap, b: &Snap) -> bool {
    ods_eq(&a.state, &b.state)
        && odc_eq(&a.command, &b.command)
        && a.other == b.other
        && a.follows_state == b.follows_state
        && a.follows_command == b.follows_command
}
/// The oracle: what the terminal currently sees = the real combined read.
fn sees(t: &RefCell<Terminal<'_, Er>>) -> Option<TerminalData> {
    let got: Output<TerminalData, Er> = t.borrow().get();
    match got {
        Ok(Some(d)) => {
            // the datum's own timestamp and the embedded one are the same instant
            assert!(d.time.0 == d.value.time.0);
            Some(d.value)
        }
        Ok(None) => None,
        Err(_) => {
            assert!(false); // "Terminal TerminalData get always returns Ok"
            None
        }
    }
}

// ------------------------------------------------------------------ recording inner Settable<TerminalData>
struct Rec {
    sd: SettableData<TerminalData, Er>,
    set_result: NothingOrError<Er>,
    update_result: NothingOrError<Er>,
    seq: u32,
    n_set: u32,
    set_at: u32,
    got: Option<TerminalData>,
    n_update: u32,
    update_at: u32,
}
impl Rec {
    fn any() -> Self {
        Rec {
            sd: SettableData::new(),
            set_result: any_result(),
            update_result: any_result(),
            seq: 0,
            n_set: 0,
            set_at: 0,
            got: None,
            n_update: 0,
            update_at: 0,
        }
    }
}
impl Settable<TerminalData, Er> for Rec {
    fn impl_set(&mut self, value: TerminalData) -> NothingOrError<Er> {
        self.seq += 1;
        self.n_set += 1;
        self.set_at = self.seq;
        self.got = Some(value);
        self.set_result
    }
    fn get_settable_data_ref(&self) -> &SettableData<TerminalData, Er> {
        &self.sd
    }
    fn get_settable_data_mut(&mut self) -> &mut SettableData<TerminalData, Er> {
        &mut self.sd
    }
}
impl Updatable<Er> for Rec {
    fn update(&mut self) -> NothingOrError<Er> {
        self.seq += 1;
        self.n_update += 1;
        self.update_at = self.seq;
        self.update_result
    }
}

/// SPEC of ActuatorWrapper::update given what the terminal sees when the inner object is served.
fn actuator_post(rec: &Rec, want: &Option<TerminalData>, res: &NothingOrError<Er>) {
    match want {
        Some(td) => {
            // handed over exactly once, exactly the combined data, before the update
            assert!(rec.n_set == 1);
            assert!(rec.set_at == 1);
            assert!(otd_eq(&rec.got, &Some(*td)));
            match rec.set_result {
                Err(_) => {
                    // a rejected set is propagated; `?` returns at once, so the inner object is NOT updated
                    assert!(res_eq(res, &rec.set_result));
                    assert!(rec.n_update == 0);
                }
                Ok(()) => {
                    assert!(rec.n_update == 1);
                    assert!(rec.update_at == 2);
                    assert!(res_eq(res, &rec.update_result));
                    // Settable::set bookkeeping (C15): the request is remembered
                    assert!(otd_eq(&rec.sd.last_request, &Some(*td)));
                }
            }
        }
        None => {
            // the terminal sees nothing: nothing is handed over, the inner object is still updated once
            assert!(rec.n_set == 0);
            assert!(rec.got.is_none());
            assert!(rec.n_update == 1);
            assert!(res_eq(res, &rec.update_result));
        }
    }
}

//@ob fn="<ActuatorWrapper<T,E> as Updatable<E>>::update" at=src/devices/wrappers.rs:32 clause="arbitrary terminal slots, optionally connected to a partner with arbitrary slots; inner outcomes symbolic: inner.set called exactly once with exactly (bit-equal time, command, state) the terminal's combined read, before update; nothing set when the read is None; update exactly once unless set was rejected; set error returned (update then not called); update error returned; terminal and partner left bit-untouched"
#[kani::proof]
fn c20_actuator_update_relays_combined_read() {
    let mut w = ActuatorWrapper { inner: Rec::any(), terminal: RefCell::new(any_slots_terminal()) };
    let partner: RefCell<Terminal<'_, Er>> = RefCell::new(any_slots_terminal());
    let connected: bool = kani::any();
    if connected {
        connect(w.get_terminal(), &partner);
    }
    let want = sees(&w.terminal);
    let pre = snap(&w.terminal.borrow());
    let pre_p = snap(&partner.borrow());
    let res = w.update();
    actuator_post(&w.inner, &want, &res);
    assert!(snap_eq(&snap(&w.terminal.borrow()), &pre));
    assert!(snap_eq(&snap(&partner.borrow()), &pre_p));
    // links are as set up
    assert!(w.terminal.borrow().other.is_some() == connected);
    kani::cover!(connected && want.is_some() && res.is_ok(), "connected, data relayed");
    kani::cover!(want.is_none() && res.is_ok(), "nothing seen");
    kani::cover!(want.is_some() && w.inner.n_update == 0, "set rejected");
    reach!();
}

//@ob fn="<ActuatorWrapper<T,E> as Updatable<E>>::update / Device::update_terminals" at=src/devices/wrappers.rs:33 clause="update_terminals first: the terminal's command slot follows a getter with symbolic outcome; a follow error is returned and the inner object is neither set nor updated; otherwise the inner object receives the combined read of the terminal AFTER the followed value was taken in (followed getter read exactly once)"
#[kani::proof]
fn c20_actuator_update_terminals_first() {
    let mut feed: Scripted<Datum<Command>> = Scripted::new(any_output());
    let feed_out = feed.out;
    let mut term = any_slots_terminal();
    term.settable_data_command.following = Some(rf_dyn(&mut feed));
    let cmd0 = term.settable_data_command.last_request;
    let state0 = term.settable_data_state.last_request;
    let mut w = ActuatorWrapper { inner: Rec::any(), terminal: RefCell::new(term) };
    let res = w.update();
    match feed_out {
        Err(e) => {
            assert!(res_eq(&res, &Err(e)));
            assert!(w.inner.n_set == 0 && w.inner.n_update == 0);
        }
        Ok(fed) => {
            // SPEC of following (Settable::follow docs): a present value is taken in as the new request
            let cmd_now = match fed {
                Some(dd) => Some(dd.value),
                None => cmd0,
            };
            assert!(odc_eq(&w.terminal.borrow().settable_data_command.last_request, &cmd_now));
            assert!(ods_eq(&w.terminal.borrow().settable_data_state.last_request, &state0));
            let want = sees(&w.terminal);
            actuator_post(&w.inner, &want, &res);
            if let (Some(td), Some(c)) = (&want, &cmd_now) {
                assert!(oc_eq(&td.command, &Some(c.value)));
            }
        }
    }
    assert!(feed.gets.get() == 1);
    kani::cover!(matches!(feed_out, Ok(Some(_))) && res.is_ok(), "followed value relayed");
    reach!();
}

//@ob fn="ActuatorWrapper::new / get_terminal" at=src/devices/wrappers.rs:14 clause="new: the inner object is stored unchanged, the terminal is fresh (both slots empty, following nothing, unconnected); get_terminal is the wrapper's own terminal"
#[kani::proof]
fn c20_actuator_new() {
    let rec = Rec::any();
    let (sr, ur) = (rec.set_result, rec.update_result);
    let w = ActuatorWrapper::new(rec);
    let s = snap(&w.terminal.borrow());
    assert!(s.state.is_none() && s.command.is_none() && s.other.is_null() && !s.follows_state && !s.follows_command);
    assert!(res_eq(&w.inner.set_result, &sr) && res_eq(&w.inner.update_result, &ur));
    assert!(w.inner.n_set == 0 && w.inner.n_update == 0);
    assert!(w.get_terminal() as *const RefCell<Terminal<'_, Er>> == &w.terminal as *const RefCell<Terminal<'_, Er>>);
    reach!();
}

// ------------------------------------------------------------------ GetterStateDeviceWrapper
//@ob fn="<GetterStateDeviceWrapper<T,E> as Updatable<E>>::update" at=src/devices/wrappers.rs:72 clause="arbitrary terminal slots (optionally connected), inner getter with symbolic update result and symbolic output: inner updated exactly once and first; update error returned with the getter not read and terminal+partner bit-untouched; get error returned, terminal untouched; absent leaves terminal untouched and returns Ok; present datum is written bit-unchanged (time and state) into the state slot (get_last_request equals it), command slot, link and partner untouched"
#[kani::proof]
fn c20_encoder_update_writes_present_state() {
    let mut inner: Scripted<State> = Scripted::new(any_output());
    inner.update_result = any_result();
    let out = inner.out;
    let ures = inner.update_result;
    let mut w = GetterStateDeviceWrapper { inner: inner, terminal: RefCell::new(any_slots_terminal()) };
    let partner: RefCell<Terminal<'_, Er>> = RefCell::new(any_slots_terminal());
    let connected: bool = kani::any();
    if connected {
        connect(w.get_terminal(), &partner);
    }
    let pre = snap(&w.terminal.borrow());
    let pre_p = snap(&partner.borrow());
    let res = w.update();
    let post = snap(&w.terminal.borrow());
    assert!(w.inner.updates == 1);
    assert!(snap_eq(&snap(&partner.borrow()), &pre_p));
    match ures {
        Err(_) => {
            assert!(res_eq(&res, &ures));
            assert!(w.inner.gets.get() == 0);
            assert!(snap_eq(&post, &pre));
        }
        Ok(()) => {
            assert!(w.inner.gets.get() == 1);
            match out {
                Err(e) => {
                    assert!(res_eq(&res, &Err(e)));
                    assert!(snap_eq(&post, &pre));
                }
                Ok(None) => {
                    assert!(res.is_ok());
                    assert!(snap_eq(&post, &pre));
                }
                Ok(Some(d)) => {
                    assert!(res.is_ok());
                    assert!(ods_eq(&post.state, &Some(d)));
                    let lr: Option<Datum<State>> = w.terminal.borrow().get_last_request();
                    assert!(ods_eq(&lr, &Some(d)));
                    assert!(odc_eq(&post.command, &pre.command));
                    assert!(post.other == pre.other && !post.follows_state && !post.follows_command);
                }
            }
        }
    }
    kani::cover!(connected && matches!(out, Ok(Some(_))) && res.is_ok(), "state written");
    kani::cover!(matches!(out, Ok(None)) && res.is_ok(), "absent");
    reach!();
}

//@ob fn="<GetterStateDeviceWrapper<T,E> as Updatable<E>>::update (order)" at=src/devices/wrappers.rs:73 clause="inner updated before the terminal: with the terminal's command slot following a getter, an inner update error is returned without the followed getter being read (terminal untouched); a follow error is returned after the inner update without the inner getter being read; otherwise the followed command is taken in and the inner's present state is written"
#[kani::proof]
fn c20_encoder_inner_update_before_terminals() {
    let mut feed: Scripted<Datum<Command>> = Scripted::new(any_output());
    let feed_out = feed.out;
    let mut term = any_slots_terminal();
    term.settable_data_command.following = Some(rf_dyn(&mut feed));
    let cmd0 = term.settable_data_command.last_request;
    let state0 = term.settable_data_state.last_request;
    let mut inner: Scripted<State> = Scripted::new(any_output());
    inner.update_result = any_result();
    let out = inner.out;
    let ures = inner.update_result;
    let mut w = GetterStateDeviceWrapper { inner: inner, terminal: RefCell::new(term) };
    let res = w.update();
    assert!(w.inner.updates == 1);
    let cmd1 = w.terminal.borrow().settable_data_command.last_request;
    let state1 = w.terminal.borrow().settable_data_state.last_request;
    match (ures, feed_out) {
        (Err(_), _) => {
            assert!(res_eq(&res, &ures));
            assert!(feed.gets.get() == 0 && w.inner.gets.get() == 0);
            assert!(odc_eq(&cmd1, &cmd0) && ods_eq(&state1, &state0));
        }
        (Ok(()), Err(e)) => {
            assert!(res_eq(&res, &Err(e)));
            assert!(feed.gets.get() == 1 && w.inner.gets.get() == 0);
            assert!(odc_eq(&cmd1, &cmd0) && ods_eq(&state1, &state0));
        }
        (Ok(()), Ok(fed)) => {
            let cmd_now = match fed {
                Some(dd) => Some(dd.value),
                None => cmd0,
            };
            assert!(odc_eq(&cmd1, &cmd_now));
            match out {
                Err(e) => assert!(res_eq(&res, &Err(e)) && ods_eq(&state1, &state0)),
                Ok(None) => assert!(res.is_ok() && ods_eq(&state1, &state0)),
                Ok(Some(d)) => assert!(res.is_ok() && ods_eq(&state1, &Some(d))),
            }
        }
    }
    reach!();
}

//@ob fn="GetterStateDeviceWrapper::new / get_terminal" at=src/devices/wrappers.rs:54 clause="new: the inner getter is stored unchanged, the terminal is fresh (both slots empty, following nothing, unconnected); get_terminal is the wrapper's own terminal"
#[kani::proof]
fn c20_encoder_new() {
    let inner: Scripted<State> = Scripted::new(any_output());
    let w = GetterStateDeviceWrapper::new(inner);
    let s = snap(&w.terminal.borrow());
    assert!(s.state.is_none() && s.command.is_none() && s.other.is_null() && !s.follows_state && !s.follows_command);
    assert!(w.inner.updates == 0 && w.inner.gets.get() == 0);
    assert!(w.get_terminal() as *const RefCell<Terminal<'_, Er>> == &w.terminal as *const RefCell<Terminal<'_, Er>>);
    reach!();
}

// ------------------------------------------------------------------ PIDWrapper
/// Recording motor.  As the crate documents for implementors that want to follow a getter, its `update` calls
/// `update_following_data`, so whatever it follows reaches `impl_set` through the real `Settable::set`.
struct Motor {
    sd: SettableData<f32, Er>,
    set_result: NothingOrError<Er>,
    update_result: NothingOrError<Er>,
    n_set: u32,
    got: Option<f32>,
    n_update: u32,
}
impl Motor {
    fn any() -> Self {
        Motor { sd: SettableData::new(), set_result: any_result(), update_result: any_result(), n_set: 0, got: None, n_update: 0 }
    }
    fn accepting() -> Self {
        Motor { sd: SettableData::new(), set_result: Ok(()), update_result: Ok(()), n_set: 0, got: None, n_update: 0 }
    }
}
impl Settable<f32, Er> for Motor {
    fn impl_set(&mut self, value: f32) -> NothingOrError<Er> {
        self.n_set += 1;
        self.got = Some(value);
        self.set_result
    }
    fn get_settable_data_ref(&self) -> &SettableData<f32, Er> {
        &self.sd
    }
    fn get_settable_data_mut(&mut self) -> &mut SettableData<f32, Er> {
        &mut self.sd
    }
}
impl Updatable<Er> for Motor {
    fn update(&mut self) -> NothingOrError<Er> {
        self.n_update += 1;
        self.update_following_data()?;
        self.update_result
    }
}
/// Two Rc-backed References (possibly of different static types after to_dyn!) are handles to one allocation.
fn same_rc<A: ?Sized, B: ?Sized>(a: &Reference<A>, b: &Reference<B>) -> bool {
    match (a.clone().into_inner(), b.clone().into_inner()) {
        (ReferenceUnsafe::RcRefCell(x), ReferenceUnsafe::RcRefCell(y)) => {
            Rc::as_ptr(&x) as *const () == Rc::as_ptr(&y) as *const ()
        }
        _ => false,
    }
}
fn of32_eq(a: &Option<f32>, b: &Option<f32>) -> bool {
    match (a, b) {
        (None, None) => true,
        (Some(x), Some(y)) => feq(*x, *y),
        _ => false,
    }
}
/// Present value of a CommandPID output (errors cannot arise from a ConstantGetter over a Time clock).
fn pid_now<G: Getter<State, Er> + ?Sized>(pid: &CommandPID<G, Er>) -> Option<Datum<f32>> {
    match pid.get() {
        Ok(v) => v,
        Err(_) => {
            assert!(false);
            None
        }
    }
}

//@ob fn="PIDWrapper::new" at=src/devices/wrappers.rs:98 clause="wiring after new, all arguments symbolic: shared clock holds initial_time; state and command ConstantGetters hold the initial values and read that same clock; the CommandPID follows the command getter (same allocation, through to_dyn!); the inner motor follows the CommandPID; the PID is fresh (no output), the terminal is fresh, the motor has not been set or updated"
#[kani::proof]
#[kani::unwind(3)]
fn c20_pid_new_wiring() {
    let t0: Time = kani::any();
    let s0: State = kani::any();
    let c0: Command = kani::any();
    let k: PositionDerivativeDependentPIDKValues = kani::any();
    let w = PIDWrapper::new(Motor::any(), t0, s0, c0, k);
    assert!(*w.time.borrow() == t0);
    assert!(state_bits_eq(w.state.borrow().value, s0));
    assert!(command_bits_eq(w.command.borrow().value, c0));
    assert!(same_rc(&w.state.borrow().time_getter, &w.time));
    assert!(same_rc(&w.command.borrow().time_getter, &w.time));
    match w.state.borrow().get() {
        Ok(Some(d)) => assert!(d.time == t0 && state_bits_eq(d.value, s0)),
        _ => assert!(false),
    }
    match w.command.borrow().get() {
        Ok(Some(d)) => assert!(d.time == t0 && command_bits_eq(d.value, c0)),
        _ => assert!(false),
    }
    match &w.pid.borrow().get_settable_data_ref().following {
        Some(f) => assert!(same_rc(f, &w.command)),
        None => assert!(false),
    }
    match &w.inner.sd.following {
        Some(f) => assert!(same_rc(f, &w.pid)),
        None => assert!(false),
    }
    assert!(w.state.borrow().get_settable_data_ref().following.is_none());
    assert!(w.command.borrow().get_settable_data_ref().following.is_none());
    assert!(pid_now(&*w.pid.borrow()).is_none());
    let s = snap(&w.terminal.borrow());
    assert!(s.state.is_none() && s.command.is_none() && s.other.is_null() && !s.follows_state && !s.follows_command);
    assert!(w.inner.n_set == 0 && w.inner.n_update == 0);
    assert!(w.get_terminal() as *const RefCell<Terminal<'_, Er>> == &w.terminal as *const RefCell<Terminal<'_, Er>>);
    reach!();
}

//@ob fn="<PIDWrapper<T,E> as Updatable<E>>::update" at=src/devices/wrappers.rs:144 clause="one step after new (clock, state, command, gains, terminal slots, optional partner, motor outcomes all symbolic): with terminal data the shared clock becomes its time, the state/command getters take the present fields and keep the absent ones, the PID is updated (it took the command in, its output carries the new time) and THEN the motor: the motor receives exactly (bit-equal) the PID's present output, nothing when the PID has none; without terminal data clock/getters/PID are untouched and only the motor is updated; motor errors are returned"
#[kani::proof]
#[kani::unwind(3)]
fn c20_pid_update_wiring() {
    let t0: Time = kani::any();
    let s0: State = kani::any();
    let c0: Command = kani::any();
    let k: PositionDerivativeDependentPIDKValues = kani::any();
    let mut w = PIDWrapper::new(Motor::any(), t0, s0, c0, k);
    {
        let mut t = w.terminal.borrow_mut();
        t.settable_data_state.last_request = kani::any();
        t.settable_data_command.last_request = kani::any();
    }
    let partner: RefCell<Terminal<'_, Er>> = RefCell::new(any_slots_terminal());
    let connected: bool = kani::any();
    if connected {
        connect(w.get_terminal(), &partner);
    }
    let want = sees(&w.terminal);
    let pre = snap(&w.terminal.borrow());
    let res = w.update();
    assert!(snap_eq(&snap(&w.terminal.borrow()), &pre));
    assert!(w.inner.n_update == 1);
    let out = pid_now(&*w.pid.borrow());
    match &want {
        Some(td) => {
            assert!(*w.time.borrow() == td.time);
            let s_now = match td.state {
                Some(s) => s,
                None => s0,
            };
            let c_now = match td.command {
                Some(c) => c,
                None => c0,
            };
            assert!(state_bits_eq(w.state.borrow().value, s_now));
            assert!(command_bits_eq(w.command.borrow().value, c_now));
            // the PID was updated after the getters were set: it has taken the command in through `follow` ...
            let lr: Option<Command> = w.pid.borrow().get_last_request();
            assert!(oc_eq(&lr, &Some(c_now)));
            // ... and a fresh CommandPID has an output after one update exactly for a position command (C11),
            // stamped with the time the state getter reports, i.e. the shared clock
            match PositionDerivative::from(c_now) {
                PositionDerivative::Position => match out {
                    Some(d) => assert!(d.time == td.time),
                    None => assert!(false),
                },
                _ => assert!(out.is_none()),
            }
        }
        None => {
            assert!(*w.time.borrow() == t0);
            assert!(state_bits_eq(w.state.borrow().value, s0));
            assert!(command_bits_eq(w.command.borrow().value, c0));
            let lr: Option<Command> = w.pid.borrow().get_last_request();
            assert!(lr.is_none());
            assert!(out.is_none());
        }
    }
    // what the motor received
    match out {
        Some(d) => {
            assert!(w.inner.n_set == 1);
            assert!(of32_eq(&w.inner.got, &Some(d.value)));
            match w.inner.set_result {
                Err(_) => assert!(res_eq(&res, &w.inner.set_result)),
                Ok(()) => assert!(res_eq(&res, &w.inner.update_result)),
            }
        }
        None => {
            assert!(w.inner.n_set == 0);
            assert!(res_eq(&res, &w.inner.update_result));
        }
    }
    kani::cover!(want.is_some() && out.is_some() && res.is_ok(), "motor driven");
    kani::cover!(want.is_none(), "no terminal data");
    kani::cover!(connected && want.is_some(), "data through partner");
    reach!();
}
