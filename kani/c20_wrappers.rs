//@host src/devices/wrappers.rs
//@config dev
// C20 -- device wrappers relay data between getters/settables and terminals unaltered.
//
// Private child of `devices::wrappers`: builds the wrappers with struct literals (private fields `inner`,
// `terminal`, `time`, `state`, `command`, `pid`) and, being a descendant of the crate root, builds Terminals
// with arbitrary slot contents (`SettableData.{following,last_request}`, `Terminal.other`).
//
// One-step contracts from an arbitrary terminal pre-state (every slot symbolic, optionally connected to a
// partner terminal with symbolic slots) and an arbitrary inner object (symbolic outcome of every call).  The
// wrappers keep no state of their own besides the terminal (Actuator/GetterState), so the one-step contract
// holds in every round of every history: "one-step => all sequences of rounds" (the property quantifies to 32).
// "What the terminal currently sees" is, by definition, the value of the real combined read
// `<Terminal as Getter<TerminalData>>::get` on that terminal; it is used as the oracle and is itself bit-moved
// data, never recomputed.  Where a connected partner makes the combined state read an average, the crate's own
// `<State as Div<f32>>::div` is replaced by a deterministic uninterpreted stand-in (kani::stub): the relay clauses
// hold for every interpretation of that division (the oracle and the wrapper call the same function); without the
// stub the solver spends two minutes proving two copies of the f32 divider equivalent.
#![allow(unused_imports, dead_code, unused_mut)]
use crate::*;
use crate::verif_support::*;
use crate::devices::wrappers::*;
use crate::reference::ReferenceUnsafe;
use crate::streams::control::CommandPID;

// ------------------------------------------------------------------ bit-exact comparisons
fn ods_eq(a: &Option<Datum<State>>, b: &Option<Datum<State>>) -> bool {
    match (a, b) {
        (None, None) => true,
        (Some(x), Some(y)) => x.time.0 == y.time.0 && state_bits_eq(x.value, y.value),
        _ => false,
    }
}
fn odc_eq(a: &Option<Datum<Command>>, b: &Option<Datum<Command>>) -> bool {
    match (a, b) {
        (None, None) => true,
        (Some(x), Some(y)) => x.time.0 == y.time.0 && command_bits_eq(x.value, y.value),
        _ => false,
    }
}
fn os_eq(a: &Option<State>, b: &Option<State>) -> bool {
    match (a, b) {
        (None, None) => true,
        (Some(x), Some(y)) => state_bits_eq(*x, *y),
        _ => false,
    }
}
fn oc_eq(a: &Option<Command>, b: &Option<Command>) -> bool {
    match (a, b) {
        (None, None) => true,
        (Some(x), Some(y)) => command_bits_eq(*x, *y),
        _ => false,
    }
}
fn td_eq(a: &TerminalData, b: &TerminalData) -> bool {
    a.time.0 == b.time.0 && oc_eq(&a.command, &b.command) && os_eq(&a.state, &b.state)
}
fn otd_eq(a: &Option<TerminalData>, b: &Option<TerminalData>) -> bool {
    match (a, b) {
        (None, None) => true,
        (Some(x), Some(y)) => td_eq(x, y),
        _ => false,
    }
}
fn res_eq(a: &NothingOrError<Er>, b: &NothingOrError<Er>) -> bool {
    match (a, b) {
        (Ok(()), Ok(())) => true,
        (Err(Error::FromNone), Err(Error::FromNone)) => true,
        (Err(Error::Other(x)), Err(Error::Other(y))) => x == y,
        _ => false,
    }
}
fn any_result() -> NothingOrError<Er> {
    if kani::any() {
        Ok(())
    } else {
        Err(kani::any())
    }
}

// ------------------------------------------------------------------ terminals with arbitrary contents
fn any_slots_terminal<'a>() -> Terminal<'a, Er> {
    Terminal {
        settable_data_state: SettableData { following: None, last_request: kani::any() },
        settable_data_command: SettableData { following: None, last_request: kani::any() },
        other: None,
    }
}
/// Snapshot of everything a Terminal holds (slots bit-exact, identity of the link).
struct Snap {
    state: Option<Datum<State>>,
    command: Option<Datum<Command>>,
    other: *const (),
    follows_state: bool,
    follows_command: bool,
}
fn snap(t: &Terminal<'_, Er>) -> Snap {
    Snap {
        state: t.settable_data_state.last_request,
        command: t.settable_data_command.last_request,
        other: match t.other {
            Some(o) => o as *const RefCell<Terminal<'_, Er>> as *const (),
            None => core::ptr::null(),
        },
        follows_state: t.settable_data_state.following.is_some(),
        follows_command: t.settable_data_command.following.is_some(),
    }
}
fn snap_eq(a: &Snap, b: &Snap) -> bool {
    ods_eq(&a.state, &b.state)
        && odc_eq(&a.command, &b.command)
        && a.other == b.other
        && a.follows_state == b.follows_state
        && a.follows_command == b.follows_command
}
/// The oracle: what the terminal currently sees = the real combined read.
fn sees(t: &RefCell<Terminal<'_, Er>>) -> Option<TerminalData> {
    let got: Output<TerminalData, Er> = t.borrow().get();
    match got {
        Ok(Some(d)) => {
            // the datum's own timestamp and the embedded one are the same instant
            assert!(d.time.0 == d.value.time.0);
            Some(d.value)
        }
        Ok(None) => None,
        Err(_) => {
            assert!(false); // "Terminal TerminalData get always returns Ok"
            None
        }
    }
}

// ------------------------------------------------------------------ recording inner Settable<TerminalData>
struct Rec {
    sd: SettableData<TerminalData, Er>,
    set_result: NothingOrError<Er>,
    update_result: NothingOrError<Er>,
    seq: u32,
    n_set: u32,
    set_at: u32,
    got: Option<TerminalData>,
    n_update: u32,
    update_at: u32,
}
impl Rec {
    fn any() -> Self {
        Rec {
            sd: SettableData::new(),
            set_result: any_result(),
            update_result: any_result(),
            seq: 0,
            n_set: 0,
            set_at: 0,
            got: None,
            n_update: 0,
            update_at: 0,
        }
    }
}
impl Settable<TerminalData, Er> for Rec {
    fn impl_set(&mut self, value: TerminalData) -> NothingOrError<Er> {
        self.seq += 1;
        self.n_set += 1;
        self.set_at = self.seq;
        self.got = Some(value);
        self.set_result
    }
    fn get_settable_data_ref(&self) -> &SettableData<TerminalData, Er> {
        &self.sd
    }
    fn get_settable_data_mut(&mut self) -> &mut SettableData<TerminalData, Er> {
        &mut self.sd
    }
}
impl Updatable<Er> for Rec {
    fn update(&mut self) -> NothingOrError<Er> {
        self.seq += 1;
        self.n_update += 1;
        self.update_at = self.seq;
        self.update_result
    }
}

/// SPEC of ActuatorWrapper::update given what the terminal sees when the inner object is served.
fn actuator_post(rec: &Rec, want: &Option<TerminalData>, res: &NothingOrError<Er>) {
    match want {
        Some(td) => {
            // handed over exactly once, exactly the combined data, before the update
            assert!(rec.n_set == 1);
            assert!(rec.set_at == 1);
            assert!(otd_eq(&rec.got, &Some(*td)));
            match rec.set_result {
                Err(_) => {
                    // a rejected set is propagated; `?` returns at once, so the inner object is NOT updated
                    assert!(res_eq(res, &rec.set_result));
                    assert!(rec.n_update == 0);
                }
                Ok(()) => {
                    assert!(rec.n_update == 1);
                    assert!(rec.update_at == 2);
                    assert!(res_eq(res, &rec.update_result));
                    // Settable::set bookkeeping (C15): the request is remembered
                    assert!(otd_eq(&rec.sd.last_request, &Some(*td)));
                }
            }
        }
        None => {
            // the terminal sees nothing: nothing is handed over, the inner object is still updated once
            assert!(rec.n_set == 0);
            assert!(rec.got.is_none());
            assert!(rec.n_update == 1);
            assert!(res_eq(res, &rec.update_result));
        }
    }
}

//@ob fn="<ActuatorWrapper<T,E> as Updatable<E>>::update" at=src/devices/wrappers.rs:32 also=rel_check clause="arbitrary terminal slots, optionally connected to a partner with arbitrary slots; inner outcomes symbolic: inner.set called exactly once with exactly (bit-equal time, command, state) the terminal's combined read, before update; nothing set when the read is None; update exactly once unless set was rejected; set error returned (update then not called); update error returned; terminal and partner left bit-untouched"
#[kani::proof]
#[kani::stub(<State as Div<f32>>::div, stub_state_div_f32)]
fn c20_actuator_update_relays_combined_read() {
    let mut w = ActuatorWrapper { inner: Rec::any(), terminal: RefCell::new(any_slots_terminal()) };
    let partner: RefCell<Terminal<'_, Er>> = RefCell::new(any_slots_terminal());
    let connected: bool = kani::any();
    if connected {
        connect(w.get_terminal(), &partner);
    }
    let want = sees(&w.terminal);
    let pre = snap(&w.terminal.borrow());
    let pre_p = snap(&partner.borrow());
    let res = w.update();
    actuator_post(&w.inner, &want, &res);
    assert!(snap_eq(&snap(&w.terminal.borrow()), &pre));
    assert!(snap_eq(&snap(&partner.borrow()), &pre_p));
    // links are as set up
    assert!(w.terminal.borrow().other.is_some() == connected);
    kani::cover!(connected && want.is_some() && res.is_ok(), "connected, data relayed");
    kani::cover!(want.is_none() && res.is_ok(), "nothing seen");
    kani::cover!(want.is_some() && w.inner.n_update == 0, "set rejected");
    reach!();
}

//@ob fn="<ActuatorWrapper<T,E> as Updatable<E>>::update / Device::update_terminals" at=src/devices/wrappers.rs:33 clause="update_terminals first: the terminal's command slot follows a getter with symbolic outcome; a follow error is returned and the inner object is neither set nor updated; otherwise the inner object receives the combined read of the terminal AFTER the followed value was taken in (followed getter read exactly once)"
#[kani::proof]
fn c20_actuator_update_terminals_first() {
    let mut feed: Scripted<Datum<Command>> = Scripted::new(any_output());
    let feed_out = feed.out;
    let mut term = any_slots_terminal();
    term.settable_data_command.following = Some(rf_dyn(&mut feed));
    let cmd0 = term.settable_data_command.last_request;
    let state0 = term.settable_data_state.last_request;
    let mut w = ActuatorWrapper { inner: Rec::any(), terminal: RefCell::new(term) };
    let res = w.update();
    match feed_out {
        Err(e) => {
            assert!(res_eq(&res, &Err(e)));
            assert!(w.inner.n_set == 0 && w.inner.n_update == 0);
        }
        Ok(fed) => {
            // SPEC of following (Settable::follow docs): a present value is taken in as the new request
            let cmd_now = match fed {
                Some(dd) => Some(dd.value),
                None => cmd0,
            };
            assert!(odc_eq(&w.terminal.borrow().settable_data_command.last_request, &cmd_now));
            assert!(ods_eq(&w.terminal.borrow().settable_data_state.last_request, &state0));
            let want = sees(&w.terminal);
            actuator_post(&w.inner, &want, &res);
            if let (Some(td), Some(c)) = (&want, &cmd_now) {
                assert!(oc_eq(&td.command, &Some(c.value)));
            }
        }
    }
    assert!(feed.gets.get() == 1);
    kani::cover!(matches!(feed_out, Ok(Some(_))) && res.is_ok(), "followed value relayed");
    reach!();
}

//@ob fn="ActuatorWrapper::new / get_terminal" at=src/devices/wrappers.rs:14 clause="new: the inner object is stored unchanged, the terminal is fresh (both slots empty, following nothing, unconnected); get_terminal is the wrapper's own terminal"
#[kani::proof]
fn c20_actuator_new() {
    let rec = Rec::any();
    let (sr, ur) = (rec.set_result, rec.update_result);
    let w = ActuatorWrapper::new(rec);
    let s = snap(&w.terminal.borrow());
    assert!(s.state.is_none() && s.command.is_none() && s.other.is_null() && !s.follows_state && !s.follows_command);
    assert!(res_eq(&w.inner.set_result, &sr) && res_eq(&w.inner.update_result, &ur));
    assert!(w.inner.n_set == 0 && w.inner.n_update == 0);
    assert!(w.get_terminal() as *const RefCell<Terminal<'_, Er>> == &w.terminal as *const RefCell<Terminal<'_, Er>>);
    reach!();
}

// ------------------------------------------------------------------ GetterStateDeviceWrapper
//@ob fn="<GetterStateDeviceWrapper<T,E> as Updatable<E>>::update" at=src/devices/wrappers.rs:72 also_thorough=rel_check clause="arbitrary terminal slots (optionally connected), inner getter with symbolic update result and symbolic output: inner updated exactly once and first; update error returned with the getter not read and terminal+partner bit-untouched; get error returned, terminal untouched; absent leaves terminal untouched and returns Ok; present datum is written bit-unchanged (time and state) into the state slot (get_last_request equals it), command slot, link and partner untouched"
#[kani::proof]
fn c20_encoder_update_writes_present_state() {
    let mut inner: Scripted<State> = Scripted::new(any_output());
    inner.update_result = any_result();
    let out = inner.out;
    let ures = inner.update_result;
    let mut w = GetterStateDeviceWrapper { inner: inner, terminal: RefCell::new(any_slots_terminal()) };
    let partner: RefCell<Terminal<'_, Er>> = RefCell::new(any_slots_terminal());
    let connected: bool = kani::any();
    if connected {
        connect(w.get_terminal(), &partner);
    }
    let pre = snap(&w.terminal.borrow());
    let pre_p = snap(&partner.borrow());
    let res = w.update();
    let post = snap(&w.terminal.borrow());
    assert!(w.inner.updates == 1);
    assert!(snap_eq(&snap(&partner.borrow()), &pre_p));
    match ures {
        Err(_) => {
            assert!(res_eq(&res, &ures));
            assert!(w.inner.gets.get() == 0);
            assert!(snap_eq(&post, &pre));
        }
        Ok(()) => {
            assert!(w.inner.gets.get() == 1);
            match out {
                Err(e) => {
                    assert!(res_eq(&res, &Err(e)));
                    assert!(snap_eq(&post, &pre));
                }
                Ok(None) => {
                    assert!(res.is_ok());
                    assert!(snap_eq(&post, &pre));
                }
                Ok(Some(d)) => {
                    assert!(res.is_ok());
                    assert!(ods_eq(&post.state, &Some(d)));
                    let lr: Option<Datum<State>> = w.terminal.borrow().get_last_request();
                    assert!(ods_eq(&lr, &Some(d)));
                    assert!(odc_eq(&post.command, &pre.command));
                    assert!(post.other == pre.other && !post.follows_state && !post.follows_command);
                }
            }
        }
    }
    kani::cover!(connected && matches!(out, Ok(Some(_))) && res.is_ok(), "state written");
    kani::cover!(matches!(out, Ok(None)) && res.is_ok(), "absent");
    reach!();
}

//@ob fn="<GetterStateDeviceWrapper<T,E> as Updatable<E>>::update (order)" at=src/devices/wrappers.rs:73 clause="inner updated before the terminal: with the terminal's command slot following a getter, an inner update error is returned without the followed getter being read (terminal untouched); a follow error is returned after the inner update without the inner getter being read; otherwise the followed command is taken in and the inner's present state is written"
#[kani::proof]
fn c20_encoder_inner_update_before_terminals() {
    let mut feed: Scripted<Datum<Command>> = Scripted::new(any_output());
    let feed_out = feed.out;
    let mut term = any_slots_terminal();
    term.settable_data_command.following = Some(rf_dyn(&mut feed));
    let cmd0 = term.settable_data_command.last_request;
    let state0 = term.settable_data_state.last_request;
    let mut inner: Scripted<State> = Scripted::new(any_output());
    inner.update_result = any_result();
    let out = inner.out;
    let ures = inner.update_result;
    let mut w = GetterStateDeviceWrapper { inner: inner, terminal: RefCell::new(term) };
    let res = w.update();
    assert!(w.inner.updates == 1);
    let cmd1 = w.terminal.borrow().settable_data_command.last_request;
    let state1 = w.terminal.borrow().settable_data_state.last_request;
    match (ures, feed_out) {
        (Err(_), _) => {
            assert!(res_eq(&res, &ures));
            assert!(feed.gets.get() == 0 && w.inner.gets.get() == 0);
            assert!(odc_eq(&cmd1, &cmd0) && ods_eq(&state1, &state0));
        }
        (Ok(()), Err(e)) => {
            assert!(res_eq(&res, &Err(e)));
            assert!(feed.gets.get() == 1 && w.inner.gets.get() == 0);
            assert!(odc_eq(&cmd1, &cmd0) && ods_eq(&state1, &state0));
        }
        (Ok(()), Ok(fed)) => {
            let cmd_now = match fed {
                Some(dd) => Some(dd.value),
                None => cmd0,
            };
            assert!(odc_eq(&cmd1, &cmd_now));
            match out {
                Err(e) => assert!(res_eq(&res, &Err(e)) && ods_eq(&state1, &state0)),
                Ok(None) => assert!(res.is_ok() && ods_eq(&state1, &state0)),
                Ok(Some(d)) => assert!(res.is_ok() && ods_eq(&state1, &Some(d))),
            }
        }
    }
    reach!();
}

//@ob fn="GetterStateDeviceWrapper::new / get_terminal" at=src/devices/wrappers.rs:54 clause="new: the inner getter is stored unchanged, the terminal is fresh (both slots empty, following nothing, unconnected); get_terminal is the wrapper's own terminal"
#[kani::proof]
fn c20_encoder_new() {
    let inner: Scripted<State> = Scripted::new(any_output());
    let w = GetterStateDeviceWrapper::new(inner);
    let s = snap(&w.terminal.borrow());
    assert!(s.state.is_none() && s.command.is_none() && s.other.is_null() && !s.follows_state && !s.follows_command);
    assert!(w.inner.updates == 0 && w.inner.gets.get() == 0);
    assert!(w.get_terminal() as *const RefCell<Terminal<'_, Er>> == &w.terminal as *const RefCell<Terminal<'_, Er>>);
    reach!();
}

// ------------------------------------------------------------------ PIDWrapper
// Tool limit that shapes this part (found by experiment): `PIDWrapper::new` puts the clock, the two
// ConstantGetters and the CommandPID into `Rc<RefCell<..>>`.  CBMC treats a malloc'ed object of more than 64
// bytes as ONE symbol (no field sensitivity), so as soon as one symbolic value (a gain, a command, a state) is
// stored in such an object, the enum tags and vtable pointers stored next to it stop being constants for the
// symbolic executor; every `Reference::borrow`, `dyn Getter` call and -- worst -- every drop of an
// `Option<Reference<dyn Getter<..>>>` (recursive drop glue through the vtable) is then explored for all
// variants/candidates and symbolic execution does not terminate in hours (`PIDWrapper::new` alone with symbolic
// gains: > 15 min, unfinished).  Decomposition used instead:
//   (1) c20_pid_real_new_wiring       the real `new`: the wiring W (who shares which object, who follows whom, which
//                                     values are stored), all arguments symbolic; needs the CBMC flag
//                                     `--max-field-sensitivity-array-size 1024` (5 s with it, no result without);
//   (2) c20_pid_update_* / _matches_* the real `update` on a wrapper built by struct literal in wiring W with every
//                                     value symbolic, the shared objects being locals behind `Reference::from_ptr`
//                                     (field-sensitive, so everything stays tractable).  `update` is written
//                                     against `Reference::borrow/borrow_mut` only; that those behave identically
//                                     for the Rc and the Ptr variant is C17's contract;
//   (3) c20_pid_real_new_then_update  glue: the real `new` followed by real `update`s on concrete data.
/// Recording motor.  As the crate documents for implementors that want to follow a getter, its `update` calls
/// `update_following_data`, so whatever it follows reaches `impl_set` through the real `Settable::set`.
struct Motor {
    sd: SettableData<f32, Er>,
    set_result: NothingOrError<Er>,
    update_result: NothingOrError<Er>,
    n_set: u32,
    got: Option<f32>,
    n_update: u32,
}
impl Motor {
    fn any() -> Self {
        Motor { sd: SettableData::new(), set_result: any_result(), update_result: any_result(), n_set: 0, got: None, n_update: 0 }
    }
    fn accepting() -> Self {
        Motor { sd: SettableData::new(), set_result: Ok(()), update_result: Ok(()), n_set: 0, got: None, n_update: 0 }
    }
}
impl Settable<f32, Er> for Motor {
    fn impl_set(&mut self, value: f32) -> NothingOrError<Er> {
        self.n_set += 1;
        self.got = Some(value);
        self.set_result
    }
    fn get_settable_data_ref(&self) -> &SettableData<f32, Er> {
        &self.sd
    }
    fn get_settable_data_mut(&mut self) -> &mut SettableData<f32, Er> {
        &mut self.sd
    }
}
impl Updatable<Er> for Motor {
    fn update(&mut self) -> NothingOrError<Er> {
        self.n_update += 1;
        self.update_following_data()?;
        self.update_result
    }
}
type SG = ConstantGetter<State, Time, Er>;
type CG = ConstantGetter<Command, Time, Er>;
type Pid = CommandPID<SG, Er>;

/// Address of the object a Reference denotes (Rc allocation or raw pointee), type-erased; None for lock variants.
/// The temporary clone is inspected by reference and then leaked: dropping a `ReferenceUnsafe<dyn ..>` would drag
/// the recursive drop glue of every vtable candidate into the symbolic execution (strong counts are not asserted on).
fn target<A: ?Sized>(a: &Reference<A>) -> Option<*const ()> {
    let u = a.clone().into_inner();
    let r = match &u {
        ReferenceUnsafe::RcRefCell(x) => Some(Rc::as_ptr(x) as *const ()),
        ReferenceUnsafe::Ptr(p) => Some(*p as *const ()),
        _ => None,
    };
    core::mem::forget(u);
    r
}
fn same_target<A: ?Sized, B: ?Sized>(a: &Reference<A>, b: &Reference<B>) -> bool {
    match (target(a), target(b)) {
        (Some(x), Some(y)) => x == y,
        _ => false,
    }
}
fn of32_eq(a: &Option<f32>, b: &Option<f32>) -> bool {
    match (a, b) {
        (None, None) => true,
        (Some(x), Some(y)) => feq(*x, *y),
        _ => false,
    }
}
fn odf_eq(a: &Option<Datum<f32>>, b: &Option<Datum<f32>>) -> bool {
    match (a, b) {
        (None, None) => true,
        (Some(x), Some(y)) => x.time.0 == y.time.0 && feq(x.value, y.value),
        _ => false,
    }
}
/// Present value of a CommandPID output (errors cannot arise from a ConstantGetter over a Time clock).
fn pid_now(pid: &Reference<Pid>) -> Option<Datum<f32>> {
    let got: Output<f32, Er> = pid.borrow().get();
    match got {
        Ok(v) => v,
        Err(_) => {
            assert!(false);
            None
        }
    }
}
/// The wiring W that `PIDWrapper::new` establishes (and that c20_pid_real_new_wiring proves it establishes).
fn wiring_ok<T: Settable<f32, Er>>(w: &PIDWrapper<'_, T, Er>) -> bool {
    same_target(&w.state.borrow().time_getter, &w.time)
        && same_target(&w.command.borrow().time_getter, &w.time)
        && match &w.pid.borrow().get_settable_data_ref().following {
            Some(f) => same_target(f, &w.command),
            None => false,
        }
        && match &w.inner.get_settable_data_ref().following {
            Some(f) => same_target(f, &w.pid),
            None => false,
        }
        && w.state.borrow().get_settable_data_ref().following.is_none()
        && w.command.borrow().get_settable_data_ref().following.is_none()
}

//@ob fn="PIDWrapper::new" at=src/devices/wrappers.rs:98 cbmc="--max-field-sensitivity-array-size 1024" clause="wiring W after the real new, all arguments symbolic: shared clock holds initial_time; state and command ConstantGetters hold the initial values and read that same clock (same allocation); the CommandPID follows the command getter and the inner motor follows the CommandPID (same allocations, through to_dyn!); the getters follow nothing; the PID is fresh (no output), the terminal is fresh, the motor has not been set or updated.  NEEDS the CBMC flag in cbmc= (heap objects > 64 bytes are otherwise not field-sensitive and symbolic execution does not terminate)"
#[kani::proof]
#[kani::unwind(3)]
fn c20_pid_real_new_wiring() {
    let t0: Time = kani::any();
    let s0: State = kani::any();
    let c0: Command = kani::any();
    let k: PositionDerivativeDependentPIDKValues = kani::any();
    let w = PIDWrapper::new(Motor::any(), t0, s0, c0, k);
    assert!(*w.time.borrow() == t0);
    assert!(state_bits_eq(w.state.borrow().value, s0));
    assert!(command_bits_eq(w.command.borrow().value, c0));
    assert!(matches!(target(&w.time), Some(_)));
    assert!(wiring_ok(&w));
    // three distinct shared objects besides the clock
    assert!(!same_target(&w.state, &w.command) && !same_target(&w.pid, &w.command) && !same_target(&w.pid, &w.state));
    match w.state.borrow().get() {
        Ok(Some(d)) => assert!(d.time == t0 && state_bits_eq(d.value, s0)),
        _ => assert!(false),
    }
    match w.command.borrow().get() {
        Ok(Some(d)) => assert!(d.time == t0 && command_bits_eq(d.value, c0)),
        _ => assert!(false),
    }
    assert!(pid_now(&w.pid).is_none());
    let lr: Option<Command> = w.pid.borrow().get_last_request();
    assert!(lr.is_none());
    let s = snap(&w.terminal.borrow());
    assert!(s.state.is_none() && s.command.is_none() && s.other.is_null() && !s.follows_state && !s.follows_command);
    assert!(w.inner.n_set == 0 && w.inner.n_update == 0);
    assert!(w.get_terminal() as *const RefCell<Terminal<'_, Er>> == &w.terminal as *const RefCell<Terminal<'_, Er>>);
    reach!();
    core::mem::forget(w); // the destructor is not part of the property (recursive drop glue through dyn vtables)
}

/// A PIDWrapper in wiring W whose shared objects are locals of the harness behind Ptr References; the CommandPID
/// is the real one, freshly constructed by its public constructor exactly as `new` does.
macro_rules! pid_rig {
    ($w:ident, $t0:expr, $s0:expr, $c0:expr, $k:expr, $motor:expr) => {
        let mut clock: Time = $t0;
        let time = rf(&mut clock);
        let mut sg: SG = ConstantGetter::new(time.clone(), $s0);
        let state = rf(&mut sg);
        let mut cg: CG = ConstantGetter::new(time.clone(), $c0);
        let command = rf(&mut cg);
        let mut pid_obj: Pid = CommandPID::new(state.clone(), $c0, $k);
        let pid = rf(&mut pid_obj);
        pid.borrow_mut().follow(to_dyn!(Getter<Command, Er>, command.clone()));
        let mut motor: Motor = $motor;
        motor.follow(to_dyn!(Getter<f32, Er>, pid.clone()));
        let mut $w = PIDWrapper {
            terminal: RefCell::new(any_slots_terminal()),
            time: time,
            state: state,
            command: command,
            pid: pid,
            inner: motor,
        };
        assert!(wiring_ok(&$w));
    };
}
/// What the wrapper's shared objects hold.
struct Held {
    time: Time,
    state: State,
    command: Command,
    pid_request: Option<Command>,
    out: Option<Datum<f32>>,
    n_set: u32,
    n_update: u32,
}
fn held(w: &PIDWrapper<'_, Motor, Er>) -> Held {
    Held {
        time: *w.time.borrow(),
        state: w.state.borrow().value,
        command: w.command.borrow().value,
        pid_request: w.pid.borrow().get_last_request(),
        out: pid_now(&w.pid),
        n_set: w.inner.n_set,
        n_update: w.inner.n_update,
    }
}
/// SPEC of one PIDWrapper::update round, from what the terminal sees (`want`) and the pre-round contents.
fn pid_round_post(pre: &Held, want: &Option<TerminalData>, w: &PIDWrapper<'_, Motor, Er>, res: &NothingOrError<Er>) {
    let post = held(w);
    assert!(post.n_update == pre.n_update + 1);
    match want {
        Some(td) => {
            assert!(post.time == td.time);
            let s_now = match td.state {
                Some(s) => s,
                None => pre.state,
            };
            let c_now = match td.command {
                Some(c) => c,
                None => pre.command,
            };
            assert!(state_bits_eq(post.state, s_now));
            assert!(command_bits_eq(post.command, c_now));
            // the PID was updated AFTER the getters were set: it has taken that command in through `follow`,
            assert!(oc_eq(&post.pid_request, &Some(c_now)));
            // and any output it has now was computed in this round: it is stamped with this round's time
            if let Some(d) = post.out {
                assert!(d.time == td.time);
            }
        }
        None => {
            // nothing seen: clock, getters and PID are untouched
            assert!(post.time == pre.time);
            assert!(state_bits_eq(post.state, pre.state));
            assert!(command_bits_eq(post.command, pre.command));
            assert!(oc_eq(&post.pid_request, &pre.pid_request));
            assert!(odf_eq(&post.out, &pre.out));
        }
    }
    // the motor is updated after the PID: it receives exactly the PID's present output, nothing if there is none
    match post.out {
        Some(d) => {
            assert!(post.n_set == pre.n_set + 1);
            assert!(of32_eq(&w.inner.got, &Some(d.value)));
            match w.inner.set_result {
                Err(_) => assert!(res_eq(res, &w.inner.set_result)),
                Ok(()) => assert!(res_eq(res, &w.inner.update_result)),
            }
        }
        None => {
            assert!(post.n_set == pre.n_set);
            assert!(res_eq(res, &w.inner.update_result));
        }
    }
}
fn fresh_terminal_data(w: &PIDWrapper<'_, Motor, Er>) {
    let mut t = w.terminal.borrow_mut();
    t.settable_data_state.last_request = kani::any();
    t.settable_data_command.last_request = kani::any();
}
/// A7: `CommandPID::update` subtracts consecutive timestamps; keep them where the i64 difference cannot overflow.
fn time_in_range(td: &Option<TerminalData>) {
    if let Some(td) = td {
        kani::assume(td.time.0 > -(1i64 << 61) && td.time.0 < (1i64 << 61));
    }
}

//@ob fn="<PIDWrapper<T,E> as Updatable<E>>::update" at=src/devices/wrappers.rs:144 also_thorough=rel_check clause="first round on a wrapper in wiring W with a fresh CommandPID; clock, state, command, gains, terminal slots, optional partner terminal, motor outcomes all symbolic: with terminal data the shared clock becomes its time, the state/command getters take the present fields and keep the absent ones, the PID is updated after that (it took the command in; a fresh PID has an output after one update exactly for a position command, stamped with the new time) and THEN the motor, which receives exactly (bit-equal) the PID's present output, nothing if there is none; without terminal data clock/getters/PID are untouched and only the motor is updated; motor errors are returned; terminal and partner untouched"
#[kani::proof]
#[kani::stub(<State as Div<f32>>::div, stub_state_div_f32)]
fn c20_pid_update_first_round() {
    let t0: Time = kani::any();
    let s0: State = kani::any();
    let c0: Command = kani::any();
    let k: PositionDerivativeDependentPIDKValues = kani::any();
    pid_rig!(w, t0, s0, c0, k, Motor::any());
    let partner: RefCell<Terminal<'_, Er>> = RefCell::new(any_slots_terminal());
    let connected: bool = kani::any();
    if connected {
        connect(w.get_terminal(), &partner);
    }
    let want = sees(&w.terminal);
    let tpre = snap(&w.terminal.borrow());
    let ppre = snap(&partner.borrow());
    let pre = held(&w);
    assert!(pre.out.is_none() && pre.pid_request.is_none());
    let res = w.update();
    pid_round_post(&pre, &want, &w, &res);
    assert!(snap_eq(&snap(&w.terminal.borrow()), &tpre));
    assert!(snap_eq(&snap(&partner.borrow()), &ppre));
    if let Some(td) = &want {
        let c_now = match td.command {
            Some(c) => c,
            None => c0,
        };
        let out = pid_now(&w.pid);
        match PositionDerivative::from(c_now) {
            PositionDerivative::Position => assert!(out.is_some()),
            _ => assert!(out.is_none()),
        }
    }
    assert!(wiring_ok(&w));
    kani::cover!(want.is_some() && w.inner.n_set == 1 && res.is_ok(), "motor driven");
    kani::cover!(want.is_none(), "no terminal data");
    kani::cover!(connected && want.is_some(), "data through partner");
    kani::cover!(w.inner.n_set == 1 && res.is_err(), "motor rejects");
    reach!();
}

//@ob fn="<PIDWrapper<T,E> as Updatable<E>>::update" at=src/devices/wrappers.rs:144 bounded="CommandPID pre-state = any state reachable in two rounds from fresh (its fields are private to streams::control::command_pid)" clause="third round after two arbitrary rounds (each: arbitrary terminal slots, possibly none), i.e. with the PID holding an arbitrary two-round history incl. integrated outputs: same one-round contract (clock, getters, PID updated then motor; motor receives the PID's present output bit-equal, stale output re-sent when nothing is seen); timestamps within +-2^61 (A7)"
#[kani::proof]
fn c20_pid_update_third_round() {
    let t0: Time = kani::any();
    let s0: State = kani::any();
    let c0: Command = kani::any();
    let k: PositionDerivativeDependentPIDKValues = kani::any();
    pid_rig!(w, t0, s0, c0, k, Motor::accepting());
    fresh_terminal_data(&w);
    time_in_range(&sees(&w.terminal));
    let r1 = w.update();
    fresh_terminal_data(&w);
    time_in_range(&sees(&w.terminal));
    let r2 = w.update();
    assert!(r1.is_ok() && r2.is_ok());
    w.inner.set_result = any_result();
    w.inner.update_result = any_result();
    fresh_terminal_data(&w);
    let want = sees(&w.terminal);
    time_in_range(&want);
    let pre = held(&w);
    let res = w.update();
    pid_round_post(&pre, &want, &w, &res);
    assert!(wiring_ok(&w));
    kani::cover!(want.is_some() && pre.out.is_some() && w.inner.n_set == pre.n_set + 1, "driven in round 3");
    kani::cover!(want.is_none() && pre.out.is_some() && w.inner.n_set == pre.n_set + 1, "stale output re-sent");
    kani::cover!(matches!(PositionDerivative::from(w.command.borrow().value), PositionDerivative::Acceleration) && pid_now(&w.pid).is_some(), "acceleration command output after three rounds");
    reach!();
}

// ---- relational clause: the motor gets what a stand-alone CommandPID produces on the same data
/// Deterministic uninterpreted stand-in for the gain formula kp*e + ki*i + kd*d (its own contract: C04/C11).
/// Injective-style mix of the gains and the three arguments, so a wrapper that passed other gains, another
/// command or another state to its PID would produce a different token.
fn stub_pidk_evaluate(k: &PIDKValues, e: f32, i: f32, d: f32) -> f32 {
    f32::from_bits(mix(
        0x51ED_270B,
        mix(1, k.kp.to_bits(), e.to_bits()),
        mix(2, mix(3, k.ki.to_bits(), i.to_bits()), mix(4, k.kd.to_bits(), d.to_bits())),
    ))
}
/// The reference composition the property names: a stand-alone CommandPID over its own clock and getters, fed
/// the times, states and commands seen at the terminal (updated exactly when the terminal sees something).
fn standalone_feed(time: &Reference<Time>, state: &Reference<SG>, command: &Reference<CG>, pid: &Reference<Pid>, td: &Option<TerminalData>) {
    if let Some(td) = td {
        *time.borrow_mut() = td.time;
        if let Some(s) = td.state {
            let _ = state.borrow_mut().set(s);
        }
        if let Some(c) = td.command {
            let _ = command.borrow_mut().set(c);
        }
        let r = pid.borrow_mut().update();
        assert!(r.is_ok());
    }
}
macro_rules! relational_rounds {
    ($name:ident, $rounds:expr) => {
        #[kani::proof]
        #[kani::stub(PIDKValues::evaluate, stub_pidk_evaluate)]
        fn $name() {
            let t0: Time = kani::any();
            let s0: State = kani::any();
            let c0: Command = kani::any();
            let k: PositionDerivativeDependentPIDKValues = kani::any();
            pid_rig!(w, t0, s0, c0, k, Motor::accepting());
            // stand-alone twin
            let mut clock2: Time = t0;
            let time2 = rf(&mut clock2);
            let mut sg2: SG = ConstantGetter::new(time2.clone(), s0);
            let state2 = rf(&mut sg2);
            let mut cg2: CG = ConstantGetter::new(time2.clone(), c0);
            let command2 = rf(&mut cg2);
            let mut pid2_obj: Pid = CommandPID::new(state2.clone(), c0, k);
            let pid2 = rf(&mut pid2_obj);
            pid2.borrow_mut().follow(to_dyn!(Getter<Command, Er>, command2.clone()));
            let mut round = 0;
            while round < $rounds {
                fresh_terminal_data(&w);
                let want = sees(&w.terminal);
                time_in_range(&want);
                let n0 = w.inner.n_set;
                let res = w.update();
                assert!(res.is_ok());
                standalone_feed(&time2, &state2, &command2, &pid2, &want);
                match pid_now(&pid2) {
                    Some(d) => {
                        assert!(w.inner.n_set == n0 + 1);
                        assert!(of32_eq(&w.inner.got, &Some(d.value)));
                    }
                    None => assert!(w.inner.n_set == n0),
                }
                assert!(odf_eq(&pid_now(&w.pid), &pid_now(&pid2)));
                round += 1;
            }
            kani::cover!(w.inner.n_set >= 1, "motor driven");
            reach!();
        }
    };
}
//@ob fn="<PIDWrapper<T,E> as Updatable<E>>::update (relational)" at=src/devices/wrappers.rs:144 bounded="1 round from fresh; gain formula PIDKValues::evaluate replaced by a deterministic uninterpreted mix (kani::stub)" clause="the value the motor receives equals, bit for bit, the output of a stand-alone CommandPID (same gains, initial command, initial state/time) fed the same time/state/command seen at the terminal; nothing is sent when the stand-alone PID has no output"
relational_rounds!(c20_pid_matches_standalone_1_round, 1);
// Two and three relational rounds (`relational_rounds!(.., 2)` / `(.., 3)`) were tried and are NOT obligations: from
// the second round on, both PIDs execute CommandPID::update's inline f32 divisions/multiplications on equal inputs
// and the SAT solver has to prove the two bit-blasted circuits equivalent (DESIGN T6/T7): one 2-round run finished
// in 82 s, two others did not finish in 25 min; 3 rounds: no result in 40 min.  They are not needed: by induction
// over rounds, [equal PID states before the round] + [c20_pid_update_third_round: in every round the PID's inputs
// (clock, state getter, command getter, follow) are exactly the terminal's data and the PID is updated before the
// motor, which gets the PID's output bit-equal] + [round 1 relational: the wrapper's PID has the same gains,
// command and input getter as the stand-alone one, and is updated exactly once] + [CommandPID::update is a
// deterministic function of its state and inputs, A1/C11] give equal PID states and equal motor values after it.
//@ob fn="PIDWrapper::new + <PIDWrapper<T,E> as Updatable<E>>::update" at=src/devices/wrappers.rs:98 cbmc="--max-field-sensitivity-array-size 1024" bounded="1 round after new; gain formula PIDKValues::evaluate replaced by a deterministic uninterpreted mix (kani::stub)" clause="glue between the two halves of the decomposition, and what `new` hands to its CommandPID: the wrapper produced by the REAL new (Rc-backed shared objects, all arguments symbolic) satisfies the same first-round contract of update for arbitrary terminal slots and motor outcomes, and the value its motor receives equals bit for bit the output of a stand-alone CommandPID::new(state getter, initial_command, kvalues) fed the same data -- i.e. new passed exactly these gains, this command and the state getter to its PID"
#[kani::proof]
#[kani::unwind(3)]
#[kani::stub(PIDKValues::evaluate, stub_pidk_evaluate)]
fn c20_pid_real_new_then_update() {
    let t0: Time = kani::any();
    let s0: State = kani::any();
    let c0: Command = kani::any();
    let k: PositionDerivativeDependentPIDKValues = kani::any();
    let mut w = PIDWrapper::new(Motor::any(), t0, s0, c0, k);
    // stand-alone twin on locals
    let mut clock2: Time = t0;
    let time2 = rf(&mut clock2);
    let mut sg2: SG = ConstantGetter::new(time2.clone(), s0);
    let state2 = rf(&mut sg2);
    let mut cg2: CG = ConstantGetter::new(time2.clone(), c0);
    let command2 = rf(&mut cg2);
    let mut pid2_obj: Pid = CommandPID::new(state2.clone(), c0, k);
    let pid2 = rf(&mut pid2_obj);
    pid2.borrow_mut().follow(to_dyn!(Getter<Command, Er>, command2.clone()));
    fresh_terminal_data(&w);
    let want = sees(&w.terminal);
    let pre = held(&w);
    let res = w.update();
    pid_round_post(&pre, &want, &w, &res);
    standalone_feed(&time2, &state2, &command2, &pid2, &want);
    let twin = pid_now(&pid2);
    assert!(odf_eq(&pid_now(&w.pid), &twin));
    match twin {
        Some(d) => assert!(w.inner.n_set == 1 && of32_eq(&w.inner.got, &Some(d.value))),
        None => assert!(w.inner.n_set == 0),
    }
    kani::cover!(want.is_some() && w.inner.n_set == 1 && res.is_ok(), "motor driven");
    kani::cover!(want.is_none(), "no terminal data");
    reach!();
    core::mem::forget(w); // the destructor is not part of the property (recursive drop glue through dyn vtables)
}
