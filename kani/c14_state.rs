//@host src/state.rs
//@config dev
// C14 (State half): State::update closed form, setters with dimension check, accessors, constructor,
// component-wise arithmetic.  State and Quantity are enum-free, so the float formulas are proved with
// true IEEE-754 semantics under cvc5 (FP theory).  Under cvc5 `to_bits` is not available (CBMC's FPA
// back end cannot flatten a symbolic float to bits), so those harnesses compare with `fsame`
// (IEEE-equal or both NaN); every clause that only *moves* floats is proved under the default SAT
// solver with bit comparison (`feq`).
#![allow(unused_imports, dead_code)]
use crate::*;
use crate::verif_support::*;

/// "ALWAYS panics" obligations are `#[kani::should_panic]` harnesses whose real check is the `unreach:` cover after
/// the call.  Kani reports "no panics, but at least one was expected" as a failure WITHOUT a failed check when the
/// callee never panics (the driver then says UNDECIDED instead of refuted); this nondeterministic sentinel panic keeps
/// the should_panic verdict defined, so that a callee that returns normally is reported through the violated
/// `unreach:` cover of the named obligation.  It constrains nothing: the other branch continues to the call.
fn always_panics_sentinel() {
    if kani::any() {
        panic!("sentinel: not part of the obligation");
    }
}

/// Any `Unit::new(m, s)` over the whole i8 x i8 grid (no operator is applied to it, so A8 is not needed).
fn any_unit_full() -> Unit {
    Unit::new(kani::any::<i8>(), kani::any::<i8>())
}
fn any_quantity_full() -> Quantity {
    Quantity::new(kani::any(), any_unit_full())
}

// ------------------------------------------------------------------------------------------------
// State::update
// ------------------------------------------------------------------------------------------------

/// The statement's trapezoid form written with the same f32 operators, in the statement's order.
fn spec_dt_seconds(dt: Time) -> f32 {
    (dt.0 as f32) / 1_000_000_000.0
}
fn spec_update_velocity(v: f32, a: f32, dt_s: f32) -> f32 {
    v + dt_s * a
}
fn spec_update_position(p: f32, v: f32, v_new: f32, dt_s: f32) -> f32 {
    p + dt_s * (v + v_new) / 2.0
}

//@ob fn="State::update" at=src/state.rs:37 clause="for EVERY dt (positive, zero, negative, i64 extremes) and every state (incl. inf/NaN): v' = v + dt_s*a, p' = p + dt_s*(v+v')/2.0 with dt_s = (dt as f32)/1e9, evaluated with true IEEE-754 f32 semantics (equal, or both NaN); acceleration keeps its value; no unit assertion panics inside"
#[kani::proof]
#[kani::solver(cvc5)]
fn c14_state_update_formula() {
    let s0: State = kani::any();
    let dt: Time = kani::any();
    let mut s = s0;
    s.update(dt);
    let dt_s = spec_dt_seconds(dt);
    let v1 = spec_update_velocity(s0.velocity, s0.acceleration, dt_s);
    let p1 = spec_update_position(s0.position, s0.velocity, v1, dt_s);
    assert!(fsame(s.velocity, v1));
    assert!(fsame(s.position, p1));
    assert!(fsame(s.acceleration, s0.acceleration));
    kani::cover!(dt.0 > 0 && s.position == p1 && s.position != s0.position, "reach: positive dt moves the position");
    kani::cover!(dt.0 < 0 && s.position == p1 && s.position != s0.position, "reach: negative dt moves the position");
    kani::cover!(dt.0 == 0, "reach: zero dt");
    reach!();
}

//@ob fn="State::update" at=src/state.rs:37 clause="the acceleration field is bit-unchanged (NaN payload and sign of zero included) for every dt and every state; update never panics"
#[kani::proof]
fn c14_state_update_acceleration_bits() {
    let s0: State = kani::any();
    let dt: Time = kani::any();
    let mut s = s0;
    s.update(dt);
    assert!(feq(s.acceleration, s0.acceleration));
    reach!();
}

//@ob fn="State::update" at=src/state.rs:37 clause="dt = 0 is the identity: for finite acceleration, non-NaN position and |v| <= f32::MAX/2 (so that v+v' does not overflow), p' == p and v' == v as f32 values (a -0.0 may come back as +0.0), acceleration unchanged"
#[kani::proof]
#[kani::solver(cvc5)]
fn c14_state_update_zero_dt_identity() {
    let s0: State = kani::any();
    kani::assume(s0.acceleration.is_finite());
    kani::assume(!s0.position.is_nan());
    kani::assume(!s0.velocity.is_nan() && s0.velocity <= f32::MAX / 2.0 && s0.velocity >= -(f32::MAX / 2.0));
    let mut s = s0;
    s.update(Time(0));
    assert!(s.position == s0.position);
    assert!(s.velocity == s0.velocity);
    assert!(s.acceleration == s0.acceleration);
    kani::cover!(s0.position.is_infinite(), "reach: infinite position stays");
    reach!();
}

//@ob fn="State::update" at=src/state.rs:37 clause="dt = 0 is the identity for ALL finite state triples (the statement's quantifier): p' == p, v' == v, a' == a as f32 values"
#[kani::proof]
#[kani::solver(cvc5)]
fn c14_state_update_zero_dt_identity_all_finite() {
    let s0: State = kani::any();
    kani::assume(s0.acceleration.is_finite() && s0.velocity.is_finite() && s0.position.is_finite());
    let mut s = s0;
    s.update(Time(0));
    assert!(s.position == s0.position);
    assert!(s.velocity == s0.velocity);
    assert!(s.acceleration == s0.acceleration);
    reach!();
}

//@ob fn="State::update" at=src/state.rs:37 clause="sign convention: with zero acceleration and finite inputs the position moves in the direction of sign(v)*sign(dt) or stays (never the opposite way), velocity keeps its value"
#[kani::proof]
#[kani::solver(cvc5)]
fn c14_state_update_direction() {
    let s0: State = kani::any();
    let dt: Time = kani::any();
    kani::assume(s0.acceleration == 0.0);
    kani::assume(s0.position.is_finite() && s0.velocity.is_finite());
    kani::assume(s0.velocity <= f32::MAX / 2.0 && s0.velocity >= -(f32::MAX / 2.0));
    let mut s = s0;
    s.update(dt);
    assert!(s.velocity == s0.velocity);
    let forward = (s0.velocity > 0.0 && dt.0 > 0) || (s0.velocity < 0.0 && dt.0 < 0);
    let backward = (s0.velocity > 0.0 && dt.0 < 0) || (s0.velocity < 0.0 && dt.0 > 0);
    if forward {
        assert!(s.position >= s0.position);
    }
    if backward {
        assert!(s.position <= s0.position);
    }
    if s0.velocity == 0.0 || dt.0 == 0 {
        assert!(s.position == s0.position);
    }
    kani::cover!(forward && s.position > s0.position, "reach: moved forward");
    kani::cover!(backward && s.position < s0.position, "reach: moved backward");
    reach!();
}

// ------------------------------------------------------------------------------------------------
// Setters (Quantity forms): right unit => documented fields and Ok; wrong unit => Err, untouched
// ------------------------------------------------------------------------------------------------

//@ob fn="State::set_constant_position" at=src/state.rs:93 clause="argument in MILLIMETER: Ok, position = argument value (bits), velocity = +0.0, acceleration = +0.0"
#[kani::proof]
fn c14_set_constant_position_right_unit() {
    let s0: State = kani::any();
    let x: f32 = kani::any();
    let mut s = s0;
    let r = s.set_constant_position(Quantity::new(x, MILLIMETER));
    assert!(r == Ok(()));
    assert!(feq(s.position, x));
    assert!(feq(s.velocity, 0.0));
    assert!(feq(s.acceleration, 0.0));
    reach!();
}

//@ob fn="State::set_constant_position" at=src/state.rs:93 clause="argument in any other Unit::new(m,s), all i8 x i8: Err(()) and the state is bit-unchanged"
#[kani::proof]
fn c14_set_constant_position_wrong_unit() {
    let s0: State = kani::any();
    let q = any_quantity_full();
    kani::assume(q.unit != Unit::new(1, 0));
    let mut s = s0;
    let r = s.set_constant_position(q);
    assert!(r == Err(()));
    assert!(state_bits_eq(s, s0));
    kani::cover!(q.unit == MILLIMETER_PER_SECOND, "reach: velocity unit rejected");
    kani::cover!(q.unit == Unit::new(-128, 127), "reach: extreme unit rejected");
    reach!();
}

//@ob fn="State::set_constant_velocity" at=src/state.rs:73 clause="argument in MILLIMETER_PER_SECOND: Ok, velocity = argument value (bits), acceleration = +0.0, position bit-unchanged"
#[kani::proof]
fn c14_set_constant_velocity_right_unit() {
    let s0: State = kani::any();
    let x: f32 = kani::any();
    let mut s = s0;
    let r = s.set_constant_velocity(Quantity::new(x, MILLIMETER_PER_SECOND));
    assert!(r == Ok(()));
    assert!(feq(s.position, s0.position));
    assert!(feq(s.velocity, x));
    assert!(feq(s.acceleration, 0.0));
    reach!();
}

//@ob fn="State::set_constant_velocity" at=src/state.rs:73 clause="argument in any other Unit::new(m,s), all i8 x i8: Err(()) and the state is bit-unchanged"
#[kani::proof]
fn c14_set_constant_velocity_wrong_unit() {
    let s0: State = kani::any();
    let q = any_quantity_full();
    kani::assume(q.unit != Unit::new(1, -1));
    let mut s = s0;
    let r = s.set_constant_velocity(q);
    assert!(r == Err(()));
    assert!(state_bits_eq(s, s0));
    kani::cover!(q.unit == MILLIMETER, "reach: position unit rejected");
    kani::cover!(q.unit == MILLIMETER_PER_SECOND_SQUARED, "reach: acceleration unit rejected");
    reach!();
}

//@ob fn="State::set_constant_acceleration" at=src/state.rs:52 clause="argument in MILLIMETER_PER_SECOND_SQUARED: Ok, acceleration = argument value (bits), position and velocity bit-unchanged"
#[kani::proof]
fn c14_set_constant_acceleration_right_unit() {
    let s0: State = kani::any();
    let x: f32 = kani::any();
    let mut s = s0;
    let r = s.set_constant_acceleration(Quantity::new(x, MILLIMETER_PER_SECOND_SQUARED));
    assert!(r == Ok(()));
    assert!(feq(s.position, s0.position));
    assert!(feq(s.velocity, s0.velocity));
    assert!(feq(s.acceleration, x));
    reach!();
}

//@ob fn="State::set_constant_acceleration" at=src/state.rs:52 clause="argument in any other Unit::new(m,s), all i8 x i8: Err(()) and the state is bit-unchanged"
#[kani::proof]
fn c14_set_constant_acceleration_wrong_unit() {
    let s0: State = kani::any();
    let q = any_quantity_full();
    kani::assume(q.unit != Unit::new(1, -2));
    let mut s = s0;
    let r = s.set_constant_acceleration(q);
    assert!(r == Err(()));
    assert!(state_bits_eq(s, s0));
    kani::cover!(q.unit == MILLIMETER_PER_SECOND, "reach: velocity unit rejected");
    reach!();
}

//@ob fn="State::set_constant_position_raw / set_constant_velocity_raw / set_constant_acceleration_raw" at=src/state.rs:65 clause="raw setters: position setter stores the value and zeroes velocity and acceleration; velocity setter stores the value, zeroes acceleration, keeps position; acceleration setter stores the value and keeps position and velocity (all bit-exact)"
#[kani::proof]
fn c14_raw_setters() {
    let s0: State = kani::any();
    let x: f32 = kani::any();
    let mut p = s0;
    p.set_constant_position_raw(x);
    assert!(feq(p.position, x) && feq(p.velocity, 0.0) && feq(p.acceleration, 0.0));
    let mut v = s0;
    v.set_constant_velocity_raw(x);
    assert!(feq(v.position, s0.position) && feq(v.velocity, x) && feq(v.acceleration, 0.0));
    let mut a = s0;
    a.set_constant_acceleration_raw(x);
    assert!(feq(a.position, s0.position) && feq(a.velocity, s0.velocity) && feq(a.acceleration, x));
    reach!();
}

//@ob fn="State::set_constant_* vs *_raw" at=src/state.rs:52 clause="with the right unit the Quantity form and the raw form produce bit-identical states"
#[kani::proof]
fn c14_setters_agree_with_raw() {
    let s0: State = kani::any();
    let x: f32 = kani::any();
    let (mut a, mut b) = (s0, s0);
    assert!(a.set_constant_position(Quantity::new(x, MILLIMETER)).is_ok());
    b.set_constant_position_raw(x);
    assert!(state_bits_eq(a, b));
    let (mut a, mut b) = (s0, s0);
    assert!(a.set_constant_velocity(Quantity::new(x, MILLIMETER_PER_SECOND)).is_ok());
    b.set_constant_velocity_raw(x);
    assert!(state_bits_eq(a, b));
    let (mut a, mut b) = (s0, s0);
    assert!(a.set_constant_acceleration(Quantity::new(x, MILLIMETER_PER_SECOND_SQUARED)).is_ok());
    b.set_constant_acceleration_raw(x);
    assert!(state_bits_eq(a, b));
    reach!();
}

// ------------------------------------------------------------------------------------------------
// Accessors and constructors
// ------------------------------------------------------------------------------------------------

//@ob fn="State::get_position / get_velocity / get_acceleration / get_value" at=src/state.rs:112 clause="accessors return the field bit-identically with units mm, mm/s, mm/s^2 (exponents (1,0),(1,-1),(1,-2)); get_value(d) is the accessor of derivative d and carries Unit::from(d)"
#[kani::proof]
fn c14_state_accessors() {
    let s: State = kani::any();
    let p = s.get_position();
    let v = s.get_velocity();
    let a = s.get_acceleration();
    assert!(feq(p.value, s.position) && p.unit == Unit::new(1, 0));
    assert!(feq(v.value, s.velocity) && v.unit == Unit::new(1, -1));
    assert!(feq(a.value, s.acceleration) && a.unit == Unit::new(1, -2));
    let d: PositionDerivative = kani::any();
    let g = s.get_value(d);
    assert!(g.unit == Unit::from(d));
    match d {
        PositionDerivative::Position => assert!(feq(g.value, s.position) && g.unit == MILLIMETER),
        PositionDerivative::Velocity => assert!(feq(g.value, s.velocity) && g.unit == MILLIMETER_PER_SECOND),
        PositionDerivative::Acceleration => {
            assert!(feq(g.value, s.acceleration) && g.unit == MILLIMETER_PER_SECOND_SQUARED)
        }
    }
    kani::cover!(d == PositionDerivative::Velocity, "reach: velocity selected");
    reach!();
}

//@ob fn="State::new / State::new_raw" at=src/state.rs:16 clause="with units mm, mm/s, mm/s^2 State::new returns and stores the three values bit-identically; new_raw stores its arguments bit-identically; new(get_position, get_velocity, get_acceleration) round-trips"
#[kani::proof]
fn c14_state_new_ok() {
    let (p, v, a): (f32, f32, f32) = (kani::any(), kani::any(), kani::any());
    let s = State::new(
        Quantity::new(p, Unit::new(1, 0)),
        Quantity::new(v, Unit::new(1, -1)),
        Quantity::new(a, Unit::new(1, -2)),
    );
    assert!(feq(s.position, p) && feq(s.velocity, v) && feq(s.acceleration, a));
    let r = State::new_raw(p, v, a);
    assert!(state_bits_eq(r, s));
    let back = State::new(s.get_position(), s.get_velocity(), s.get_acceleration());
    assert!(state_bits_eq(back, s));
    reach!();
}

//@ob fn="State::new" at=src/state.rs:16 clause="if any of the three units is not the documented one (all i8 x i8 units) State::new ALWAYS panics"
#[kani::proof]
#[kani::should_panic]
fn c14_state_new_wrong_unit_panics() {
    always_panics_sentinel();
    let p = any_quantity_full();
    let v = any_quantity_full();
    let a = any_quantity_full();
    kani::assume(p.unit != Unit::new(1, 0) || v.unit != Unit::new(1, -1) || a.unit != Unit::new(1, -2));
    let _s = State::new(p, v, a);
    kani::cover!(true, "unreach: returned normally");
}

// ------------------------------------------------------------------------------------------------
// Arithmetic: component-wise with the same f32 operator (true IEEE semantics, cvc5)
// ------------------------------------------------------------------------------------------------

//@ob prop=C14,C08 fn="<State as Neg>::neg" at=src/state.rs:135 clause="component-wise sign flip, bit-exact (NaN payload kept)"
#[kani::proof]
fn c14_state_neg() {
    let a: State = kani::any();
    let r = -a;
    assert!(feq(r.position, -a.position) && feq(r.velocity, -a.velocity) && feq(r.acceleration, -a.acceleration));
    assert!(r.position.to_bits() == a.position.to_bits() ^ 0x8000_0000);
    reach!();
}

macro_rules! state_bin_harness {
    ($name:ident, $op:tt) => {
        #[kani::proof]
        #[kani::solver(cvc5)]
        fn $name() {
            let a: State = kani::any();
            let b: State = kani::any();
            let r = a $op b;
            assert!(fsame(r.position, a.position $op b.position));
            assert!(fsame(r.velocity, a.velocity $op b.velocity));
            assert!(fsame(r.acceleration, a.acceleration $op b.acceleration));
            reach!();
        }
    };
}
macro_rules! state_bin_assign_harness {
    ($name:ident, $op:tt, $aop:tt) => {
        #[kani::proof]
        #[kani::solver(cvc5)]
        fn $name() {
            let a: State = kani::any();
            let b: State = kani::any();
            let mut r = a;
            r $aop b;
            assert!(fsame(r.position, a.position $op b.position));
            assert!(fsame(r.velocity, a.velocity $op b.velocity));
            assert!(fsame(r.acceleration, a.acceleration $op b.acceleration));
            reach!();
        }
    };
}
macro_rules! state_scalar_harness {
    ($name:ident, $op:tt) => {
        #[kani::proof]
        #[kani::solver(cvc5)]
        fn $name() {
            let a: State = kani::any();
            let k: f32 = kani::any();
            let r = a $op k;
            assert!(fsame(r.position, a.position $op k));
            assert!(fsame(r.velocity, a.velocity $op k));
            assert!(fsame(r.acceleration, a.acceleration $op k));
            reach!();
        }
    };
}
macro_rules! state_scalar_assign_harness {
    ($name:ident, $op:tt, $aop:tt) => {
        #[kani::proof]
        #[kani::solver(cvc5)]
        fn $name() {
            let a: State = kani::any();
            let k: f32 = kani::any();
            let mut r = a;
            r $aop k;
            assert!(fsame(r.position, a.position $op k));
            assert!(fsame(r.velocity, a.velocity $op k));
            assert!(fsame(r.acceleration, a.acceleration $op k));
            reach!();
        }
    };
}

//@ob prop=C14,C08 fn="<State as Add>::add" at=src/state.rs:141 clause="component-wise f32 + (true IEEE semantics; equal or both NaN)"
state_bin_harness!(c14_state_add, +);
//@ob prop=C14,C08 fn="<State as AddAssign>::add_assign" at=src/state.rs:181 clause="a += b leaves a component-wise a + b (true IEEE semantics; equal or both NaN)"
state_bin_assign_harness!(c14_state_add_assign, +, +=);
//@ob prop=C14,C08 fn="<State as Sub>::sub" at=src/state.rs:151 clause="component-wise f32 - (true IEEE semantics; equal or both NaN)"
state_bin_harness!(c14_state_sub, -);
//@ob prop=C14,C08 fn="<State as SubAssign>::sub_assign" at=src/state.rs:186 clause="a -= b leaves a component-wise a - b (true IEEE semantics; equal or both NaN)"
state_bin_assign_harness!(c14_state_sub_assign, -, -=);
//@ob prop=C14,C08 fn="<State as Mul<f32>>::mul" at=src/state.rs:161 clause="component-wise f32 * coef (true IEEE semantics; equal or both NaN)"
state_scalar_harness!(c14_state_mul_f32, *);
//@ob prop=C14,C08 fn="<State as MulAssign<f32>>::mul_assign" at=src/state.rs:191 clause="a *= k leaves a component-wise a * k (true IEEE semantics; equal or both NaN)"
state_scalar_assign_harness!(c14_state_mul_assign_f32, *, *=);
//@ob prop=C14,C08,C20 fn="<State as Div<f32>>::div" at=src/state.rs:171 clause="component-wise f32 / dvsr (true IEEE semantics; equal or both NaN), for every divisor including 0, inf, NaN"
state_scalar_harness!(c14_state_div_f32, /);
//@ob prop=C14,C08 fn="<State as DivAssign<f32>>::div_assign" at=src/state.rs:196 clause="a /= k leaves a component-wise a / k (true IEEE semantics; equal or both NaN)"
state_scalar_assign_harness!(c14_state_div_assign_f32, /, /=);
