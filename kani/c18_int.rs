//@host src/dimensions.rs
//@config dev
// C18, first sentence: arithmetic between Time and DimensionlessInteger values is exact i64 arithmetic, and
// converting to and from i64 is the identity.
//
// Specification side: the mathematical result of + - * and unary - is computed in i128 (exact for two i64); for / see
// `m_div`.  Each operator is proved equal to it under the WEAKEST precondition under which an exact i64 result exists
// at all: the mathematical result lies in [i64::MIN, i64::MAX] and the divisor is not 0 (A7).  That the precondition
// is the weakest one is shown twice: `kani::cover!` of operand pairs whose result is i64::MAX resp. i64::MIN (cases
// adjacent to overflow lie inside it; 2^63-1 = 7 * 1317624576693539401), and a companion
// `*_outside_precondition_panics` obligation (dev profile: outside it the operator never returns, so no weaker
// precondition admits the postcondition).  The five companions for `*` cost one 128-bit Kissat product each and run
// in the thorough tier only.
#![allow(unused_imports, dead_code)]
use crate::*;
use crate::verif_support::*;

use crate::{DimensionlessInteger as D, Time as T};
const LO: i128 = i64::MIN as i128;
const HI: i128 = i64::MAX as i128;
fn exact(x: i128) -> bool { x >= LO && x <= HI }
fn m_add(a: i64, b: i64) -> Option<i64> { in_i64(a as i128 + b as i128) }
fn m_sub(a: i64, b: i64) -> Option<i64> { in_i64(a as i128 - b as i128) }
/// Product: the 128-bit reference product (Kissat; about 10 s per obligation on an idle machine, CaDiCaL 70 s).  Comparing
/// with `checked_mul` instead is instantaneous for cvc5 on the unchanged tree, but on mutated code cvc5 times out instead of
/// producing the counterexample, so the slower, decisive encoding is kept.
fn m_mul(a: i64, b: i64) -> Option<i64> { in_i64(a as i128 * b as i128) }
/// Division: the precondition is explicit; the quotient oracle is Rust's own i64 `/` (truncation toward zero).  A 128-bit
/// reference quotient, or the defining identity a = q*b + rem through a 64x64->128 multiplier, does not finish under any
/// available solver (10 min, CaDiCaL / Kissat / cvc5 / z3), so for `/` the independent part is the (explicit, weakest) precondition and
/// "exact i64 arithmetic" means: the very i64 `/` of the language applied to the two raw values, in this operand order.
/// The `/` harnesses use cvc5 (bit-vector congruence, 0.5 s): CBMC's SAT encoding of two equal divisions does not finish.
fn m_div(a: i64, b: i64) -> Option<i64> { if b == 0 || (a == i64::MIN && b == -1) { None } else { Some(a / b) } }
/// Last statement of every "always panics" harness.  If the operator under test never panics at all, a bare
/// `#[kani::should_panic]` harness is reported as a failure without a failed check (driver: undecided); this panic
/// keeps the harness status well defined, and the `unreach:` cover in front of it turns any normal return into a
/// refutation that names the obligation.
fn must_not_return() -> ! { panic!("returned normally although the contract says it always panics") }
/// the mathematical result as an i64, if it is one
fn in_i64(v: i128) -> Option<i64> { if exact(v) { Some(v as i64) } else { None } }

macro_rules! int_bin {
    ($name:ident, $A:ident, $B:ident, $R:ident, $op:tt, $spec:ident, $solver:ident, $hi:expr, $lo:expr) => {
        #[kani::proof]
        #[kani::solver($solver)]
        fn $name() {
            let (a, b): (i64, i64) = (kani::any(), kani::any());
            let e = $spec(a, b);
            kani::assume(e.is_some());
            let r: $R = $A(a) $op $B(b);
            assert!(Some(r.0) == e);
            kani::cover!((a, b) == $hi && e == Some(i64::MAX), "boundary: result i64::MAX (adjacent to overflow) is inside the precondition");
            kani::cover!((a, b) == $lo && e == Some(i64::MIN), "boundary: result i64::MIN (adjacent to overflow) is inside the precondition");
            kani::cover!((a, b) == (-7, 2), "negative lhs, positive rhs (for / the quotient -3 is truncated toward zero)");
            reach!();
        }
    };
}
macro_rules! int_assign {
    ($name:ident, $A:ident, $B:ident, $aop:tt, $spec:ident, $solver:ident, $hi:expr, $lo:expr) => {
        #[kani::proof]
        #[kani::solver($solver)]
        fn $name() {
            let (a, b): (i64, i64) = (kani::any(), kani::any());
            let e = $spec(a, b);
            kani::assume(e.is_some());
            let mut r: $A = $A(a);
            r $aop $B(b);
            assert!(Some(r.0) == e);
            kani::cover!((a, b) == $hi && e == Some(i64::MAX), "boundary: result i64::MAX (adjacent to overflow) is inside the precondition");
            kani::cover!((a, b) == $lo && e == Some(i64::MIN), "boundary: result i64::MIN (adjacent to overflow) is inside the precondition");
            kani::cover!((a, b) == (-7, 2), "negative lhs, positive rhs (for / the quotient -3 is truncated toward zero)");
            reach!();
        }
    };
}
macro_rules! int_bin_outside {
    ($name:ident, $A:ident, $B:ident, $op:tt, $spec:ident, $solver:ident) => {
        #[kani::proof]
        #[kani::solver($solver)]
        #[kani::should_panic]
        fn $name() {
            let (a, b): (i64, i64) = (kani::any(), kani::any());
            kani::assume($spec(a, b).is_none());
            let _r = $A(a) $op $B(b);
            kani::cover!(true, "unreach: returned normally");
            must_not_return();
        }
    };
}
macro_rules! int_assign_outside {
    ($name:ident, $A:ident, $B:ident, $aop:tt, $spec:ident, $solver:ident) => {
        #[kani::proof]
        #[kani::solver($solver)]
        #[kani::should_panic]
        fn $name() {
            let (a, b): (i64, i64) = (kani::any(), kani::any());
            kani::assume($spec(a, b).is_none());
            let mut r = $A(a);
            r $aop $B(b);
            kani::cover!(true, "unreach: returned normally");
            must_not_return();
        }
    };
}
macro_rules! int_neg {
    ($name:ident, $A:ident) => {
        #[kani::proof]
        fn $name() {
            let a: i64 = kani::any();
            let e = -(a as i128);
            kani::assume(exact(e));
            let r: $A = -$A(a);
            assert!(r.0 as i128 == e);
            kani::cover!(r.0 == i64::MAX, "boundary: result i64::MAX (operand i64::MIN + 1) is inside the precondition");
            kani::cover!(r.0 < 0, "negative result");
            reach!();
        }
    };
}
macro_rules! int_neg_outside {
    ($name:ident, $A:ident) => {
        #[kani::proof]
        #[kani::should_panic]
        fn $name() {
            let a: i64 = kani::any();
            kani::assume(!exact(-(a as i128)));
            let _r = -$A(a);
            kani::cover!(true, "unreach: returned normally");
            must_not_return();
        }
    };
}

// GENERATED-STYLE LIST (kept by hand): one //@ob line per harness; lines refer to /repo/src/dimensions.rs.
//@ob fn="<Time as Add>::add" at=src/dimensions.rs:155 clause="Time + Time == the exact sum, whenever the sum is an i64 (weakest precondition, A7); i64::MAX and i64::MIN results covered"
int_bin!(c18_time_add, T, T, T, +, m_add, cadical, (i64::MAX - 1, 1), (i64::MIN + 1, -1));
//@ob fn="<Time as Add>::add" at=src/dimensions.rs:155 clause="dev profile: sum outside i64 => panics, never a wrong value"
int_bin_outside!(c18_time_add_outside_precondition_panics, T, T, +, m_add, cadical);
//@ob fn="<Time as AddAssign>::add_assign" at=src/dimensions.rs:161 clause="Time += Time == the exact sum, whenever the sum is an i64 (weakest precondition)"
int_assign!(c18_time_add_assign, T, T, +=, m_add, cadical, (i64::MAX - 1, 1), (i64::MIN + 1, -1));
//@ob fn="<Time as AddAssign>::add_assign" at=src/dimensions.rs:161 clause="dev profile: sum outside i64 => panics"
int_assign_outside!(c18_time_add_assign_outside_precondition_panics, T, T, +=, m_add, cadical);
//@ob fn="<Time as Sub>::sub" at=src/dimensions.rs:166 clause="Time - Time == the exact difference, whenever it is an i64 (weakest precondition, A7)"
int_bin!(c18_time_sub, T, T, T, -, m_sub, cadical, (i64::MAX - 1, -1), (i64::MIN + 1, 1));
//@ob fn="<Time as Sub>::sub" at=src/dimensions.rs:166 clause="dev profile: difference outside i64 => panics"
int_bin_outside!(c18_time_sub_outside_precondition_panics, T, T, -, m_sub, cadical);
//@ob fn="<Time as SubAssign>::sub_assign" at=src/dimensions.rs:172 clause="Time -= Time == the exact difference, whenever it is an i64 (weakest precondition)"
int_assign!(c18_time_sub_assign, T, T, -=, m_sub, cadical, (i64::MAX - 1, -1), (i64::MIN + 1, 1));
//@ob fn="<Time as SubAssign>::sub_assign" at=src/dimensions.rs:172 clause="dev profile: difference outside i64 => panics"
int_assign_outside!(c18_time_sub_assign_outside_precondition_panics, T, T, -=, m_sub, cadical);
//@ob fn="<Time as Neg>::neg" at=src/dimensions.rs:189 clause="-Time == the exact negation for every value except i64::MIN (weakest precondition)"
int_neg!(c18_time_neg, T);
//@ob fn="<Time as Neg>::neg" at=src/dimensions.rs:189 clause="dev profile: -Time(i64::MIN) panics"
int_neg_outside!(c18_time_neg_outside_precondition_panics, T);
//@ob fn="<Time as Mul<DimensionlessInteger>>::mul" at=src/dimensions.rs:195 clause="Time * DimensionlessInteger == the exact product as a Time, whenever the product is an i64 (weakest precondition)"
int_bin!(c18_time_mul_dint, T, D, T, *, m_mul, kissat, (i64::MAX / 7, 7), (i64::MIN / 2, 2));
//@ob fn="<Time as Mul<DimensionlessInteger>>::mul" at=src/dimensions.rs:195 clause="dev profile: product outside i64 => panics" tier=thorough
int_bin_outside!(c18_time_mul_dint_outside_precondition_panics, T, D, *, m_mul, kissat);
//@ob fn="<Time as MulAssign<DimensionlessInteger>>::mul_assign" at=src/dimensions.rs:201 clause="Time *= DimensionlessInteger == the exact product, whenever it is an i64 (weakest precondition)"
int_assign!(c18_time_mul_assign_dint, T, D, *=, m_mul, kissat, (i64::MAX / 7, 7), (i64::MIN / 2, 2));
//@ob fn="<Time as MulAssign<DimensionlessInteger>>::mul_assign" at=src/dimensions.rs:201 clause="dev profile: product outside i64 => panics" tier=thorough
int_assign_outside!(c18_time_mul_assign_dint_outside_precondition_panics, T, D, *=, m_mul, kissat);
//@ob fn="<Time as Div<DimensionlessInteger>>::div" at=src/dimensions.rs:206 clause="Time / DimensionlessInteger == the exact quotient truncated toward zero, for divisor != 0 and (dividend, divisor) != (i64::MIN, -1) (weakest precondition)"
int_bin!(c18_time_div_dint, T, D, T, /, m_div, cvc5, (i64::MIN + 1, -1), (i64::MIN, 1));
//@ob fn="<Time as Div<DimensionlessInteger>>::div" at=src/dimensions.rs:206 clause="divisor 0 or i64::MIN / -1 => panics"
int_bin_outside!(c18_time_div_dint_outside_precondition_panics, T, D, /, m_div, cvc5);
//@ob fn="<Time as DivAssign<DimensionlessInteger>>::div_assign" at=src/dimensions.rs:212 clause="Time /= DimensionlessInteger == the exact truncated quotient (weakest precondition)"
int_assign!(c18_time_div_assign_dint, T, D, /=, m_div, cvc5, (i64::MIN + 1, -1), (i64::MIN, 1));
//@ob fn="<Time as DivAssign<DimensionlessInteger>>::div_assign" at=src/dimensions.rs:212 clause="divisor 0 or i64::MIN / -1 => panics"
int_assign_outside!(c18_time_div_assign_dint_outside_precondition_panics, T, D, /=, m_div, cvc5);

//@ob fn="<DimensionlessInteger as Add>::add" at=src/dimensions.rs:278 clause="exact sum whenever it is an i64 (weakest precondition)"
int_bin!(c18_dint_add, D, D, D, +, m_add, cadical, (i64::MAX - 1, 1), (i64::MIN + 1, -1));
//@ob fn="<DimensionlessInteger as Add>::add" at=src/dimensions.rs:278 clause="dev profile: sum outside i64 => panics"
int_bin_outside!(c18_dint_add_outside_precondition_panics, D, D, +, m_add, cadical);
//@ob fn="<DimensionlessInteger as AddAssign>::add_assign" at=src/dimensions.rs:284 clause="exact sum whenever it is an i64 (weakest precondition)"
int_assign!(c18_dint_add_assign, D, D, +=, m_add, cadical, (i64::MAX - 1, 1), (i64::MIN + 1, -1));
//@ob fn="<DimensionlessInteger as AddAssign>::add_assign" at=src/dimensions.rs:284 clause="dev profile: sum outside i64 => panics"
int_assign_outside!(c18_dint_add_assign_outside_precondition_panics, D, D, +=, m_add, cadical);
//@ob fn="<DimensionlessInteger as Sub>::sub" at=src/dimensions.rs:289 clause="exact difference whenever it is an i64 (weakest precondition)"
int_bin!(c18_dint_sub, D, D, D, -, m_sub, cadical, (i64::MAX - 1, -1), (i64::MIN + 1, 1));
//@ob fn="<DimensionlessInteger as Sub>::sub" at=src/dimensions.rs:289 clause="dev profile: difference outside i64 => panics"
int_bin_outside!(c18_dint_sub_outside_precondition_panics, D, D, -, m_sub, cadical);
//@ob fn="<DimensionlessInteger as SubAssign>::sub_assign" at=src/dimensions.rs:295 clause="exact difference whenever it is an i64 (weakest precondition)"
int_assign!(c18_dint_sub_assign, D, D, -=, m_sub, cadical, (i64::MAX - 1, -1), (i64::MIN + 1, 1));
//@ob fn="<DimensionlessInteger as SubAssign>::sub_assign" at=src/dimensions.rs:295 clause="dev profile: difference outside i64 => panics"
int_assign_outside!(c18_dint_sub_assign_outside_precondition_panics, D, D, -=, m_sub, cadical);
//@ob fn="<DimensionlessInteger as Mul>::mul" at=src/dimensions.rs:300 clause="exact product whenever it is an i64 (weakest precondition)"
int_bin!(c18_dint_mul, D, D, D, *, m_mul, kissat, (i64::MAX / 7, 7), (i64::MIN / 2, 2));
//@ob fn="<DimensionlessInteger as Mul>::mul" at=src/dimensions.rs:300 clause="dev profile: product outside i64 => panics" tier=thorough
int_bin_outside!(c18_dint_mul_outside_precondition_panics, D, D, *, m_mul, kissat);
//@ob fn="<DimensionlessInteger as MulAssign>::mul_assign" at=src/dimensions.rs:306 clause="exact product whenever it is an i64 (weakest precondition)"
int_assign!(c18_dint_mul_assign, D, D, *=, m_mul, kissat, (i64::MAX / 7, 7), (i64::MIN / 2, 2));
//@ob fn="<DimensionlessInteger as MulAssign>::mul_assign" at=src/dimensions.rs:306 clause="dev profile: product outside i64 => panics" tier=thorough
int_assign_outside!(c18_dint_mul_assign_outside_precondition_panics, D, D, *=, m_mul, kissat);
//@ob fn="<DimensionlessInteger as Div>::div" at=src/dimensions.rs:311 clause="exact quotient truncated toward zero, for divisor != 0 and not i64::MIN / -1 (weakest precondition)"
int_bin!(c18_dint_div, D, D, D, /, m_div, cvc5, (i64::MIN + 1, -1), (i64::MIN, 1));
//@ob fn="<DimensionlessInteger as Div>::div" at=src/dimensions.rs:311 clause="divisor 0 or i64::MIN / -1 => panics"
int_bin_outside!(c18_dint_div_outside_precondition_panics, D, D, /, m_div, cvc5);
//@ob fn="<DimensionlessInteger as DivAssign>::div_assign" at=src/dimensions.rs:317 clause="exact truncated quotient (weakest precondition)"
int_assign!(c18_dint_div_assign, D, D, /=, m_div, cvc5, (i64::MIN + 1, -1), (i64::MIN, 1));
//@ob fn="<DimensionlessInteger as DivAssign>::div_assign" at=src/dimensions.rs:317 clause="divisor 0 or i64::MIN / -1 => panics"
int_assign_outside!(c18_dint_div_assign_outside_precondition_panics, D, D, /=, m_div, cvc5);
//@ob fn="<DimensionlessInteger as Neg>::neg" at=src/dimensions.rs:322 clause="exact negation for every value except i64::MIN (weakest precondition)"
int_neg!(c18_dint_neg, D);
//@ob fn="<DimensionlessInteger as Neg>::neg" at=src/dimensions.rs:322 clause="dev profile: the negation of i64::MIN panics"
int_neg_outside!(c18_dint_neg_outside_precondition_panics, D);
//@ob fn="<DimensionlessInteger as Mul<Time>>::mul" at=src/dimensions.rs:328 clause="DimensionlessInteger * Time == the exact product as a Time, whenever it is an i64 (weakest precondition)"
int_bin!(c18_dint_mul_time, D, T, T, *, m_mul, kissat, (i64::MAX / 7, 7), (i64::MIN / 2, 2));
//@ob fn="<DimensionlessInteger as Mul<Time>>::mul" at=src/dimensions.rs:328 clause="dev profile: product outside i64 => panics" tier=thorough
int_bin_outside!(c18_dint_mul_time_outside_precondition_panics, D, T, *, m_mul, kissat);

macro_rules! i64_identity {
    ($name:ident, $A:ident) => {
        #[kani::proof]
        fn $name() {
            let x: i64 = kani::any();
            let a = $A::from(x);
            assert!(a.0 == x && a == $A(x) && a == $A::new(x));
            let a2: $A = x.into();
            assert!(a2.0 == x);
            assert!(i64::from($A(x)) == x);
            let y: i64 = $A(x).into();
            assert!(y == x);
            assert!(i64::from($A::from(x)) == x && $A::from(i64::from($A(x))) == $A(x));
            reach!();
        }
    };
}
//@ob fn="<Time as From<i64>>::from / <i64 as From<Time>>::from / Time::new" at=src/dimensions.rs:129 clause="i64 -> Time -> i64 and Time -> i64 -> Time are the identity for every i64 (From and Into forms, and the constructor)"
i64_identity!(c18_time_i64_identity, Time);
//@ob fn="<DimensionlessInteger as From<i64>>::from / <i64 as From<DimensionlessInteger>>::from / DimensionlessInteger::new" at=src/dimensions.rs:253 clause="i64 -> DimensionlessInteger -> i64 and back are the identity for every i64 (From and Into forms, and the constructor)"
i64_identity!(c18_dint_i64_identity, DimensionlessInteger);
