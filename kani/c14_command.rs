//@host src/command.rs
//@config dev
// C14 (Command half): Command is an enum carrying an f32, so cvc5 is NOT usable (CBMC's FPA back end aborts
// on floats inside tagged unions, DESIGN T7).  Everything here runs under the default SAT solver; the specs
// only move floats, compare them with 0.0, negate them, or (add/sub/mul) apply one operator once.
#![allow(unused_imports, dead_code)]
use crate::*;
use crate::verif_support::*;

/// "ALWAYS panics" obligations are `#[kani::should_panic]` harnesses whose real check is the `unreach:` cover after
/// the call.  Kani reports "no panics, but at least one was expected" as a failure WITHOUT a failed check when the
/// callee never panics (the driver then says UNDECIDED instead of refuted); this nondeterministic sentinel panic keeps
/// the should_panic verdict defined, so that a callee that returns normally is reported through the violated
/// `unreach:` cover of the named obligation.  It constrains nothing: the other branch continues to the call.
fn always_panics_sentinel() {
    if kani::any() {
        panic!("sentinel: not part of the obligation");
    }
}

fn any_unit_full() -> Unit {
    Unit::new(kani::any::<i8>(), kani::any::<i8>())
}
/// Independent reading of "which derivative": 0 position, 1 velocity, 2 acceleration.
fn rank_of(d: PositionDerivative) -> u8 {
    match d {
        PositionDerivative::Position => 0,
        PositionDerivative::Velocity => 1,
        PositionDerivative::Acceleration => 2,
    }
}
/// The unit a derivative of rank k is measured in: mm * s^-k.
fn unit_of_rank(k: u8) -> Unit {
    Unit::new(1, -(k as i8))
}
/// Structural reading of a command without going through the crate's conversions.
fn raw_parts(c: Command) -> (u8, f32) {
    match c {
        Command::Position(x) => (0, x),
        Command::Velocity(x) => (1, x),
        Command::Acceleration(x) => (2, x),
    }
}

// ------------------------------------------------------------------------------------------------
// kind / raw value / Quantity / try_from: mutually consistent and round-trip
// ------------------------------------------------------------------------------------------------

//@ob fn="Command::new" at=src/command.rs:16 clause="Command::new(d, x) is the variant of derivative d holding x bit-identically; PositionDerivative::from gives d back; f32::from gives x back (bits); Quantity::from has value x (bits) and unit mm*s^-rank(d) == Unit::from(d)"
#[kani::proof]
fn c14_command_new_kind_value_quantity() {
    let d: PositionDerivative = kani::any();
    let x: f32 = kani::any();
    let c = Command::new(d, x);
    let (k, v) = raw_parts(c);
    assert!(k == rank_of(d) && feq(v, x));
    assert!(PositionDerivative::from(c) == d);
    assert!(feq(f32::from(c), x));
    let q = Quantity::from(c);
    assert!(feq(q.value, x));
    assert!(q.unit == unit_of_rank(rank_of(d)));
    assert!(q.unit == Unit::from(d));
    kani::cover!(k == 0, "reach: position");
    kani::cover!(k == 1, "reach: velocity");
    kani::cover!(k == 2, "reach: acceleration");
    reach!();
}

//@ob fn="PositionDerivative::from(Command) / f32::from(Command) / Quantity::from(Command)" at=src/lib.rs:110 clause="for every command (any variant, any f32 incl. NaN): kind, raw value and quantity agree with the variant actually stored, and Command::new(kind, raw) rebuilds the command bit-identically"
#[kani::proof]
fn c14_command_views_consistent() {
    let c: Command = kani::any();
    let (k, v) = raw_parts(c);
    let d = PositionDerivative::from(c);
    assert!(rank_of(d) == k);
    assert!(feq(f32::from(c), v));
    let q = Quantity::from(c);
    assert!(feq(q.value, v) && q.unit == unit_of_rank(k));
    let back = Command::new(d, f32::from(c));
    let (k2, v2) = raw_parts(back);
    assert!(k2 == k && feq(v2, v));
    reach!();
}

//@ob fn="<Command as TryFrom<Quantity>>::try_from" at=src/command.rs:72 clause="Command -> Quantity -> Command round-trips bit-identically for every command"
#[kani::proof]
fn c14_command_quantity_roundtrip() {
    let c: Command = kani::any();
    let r = Command::try_from(Quantity::from(c));
    match r {
        Ok(c2) => {
            let (k, v) = raw_parts(c);
            let (k2, v2) = raw_parts(c2);
            assert!(k == k2 && feq(v, v2));
        }
        Err(()) => assert!(false),
    }
    reach!();
}

//@ob fn="<Command as TryFrom<Quantity>>::try_from" at=src/command.rs:72 clause="for every quantity with any Unit::new(m,s), all i8 x i8: Ok exactly for units (1,0),(1,-1),(1,-2), giving the position/velocity/acceleration variant with the value bit-identical and Quantity::from(result) == the argument; Err(()) for every other unit; agrees with PositionDerivative::try_from(unit)"
#[kani::proof]
fn c14_command_try_from_quantity() {
    let x: f32 = kani::any();
    let m: i8 = kani::any();
    let s: i8 = kani::any();
    let q = Quantity::new(x, Unit::new(m, s));
    let r = Command::try_from(q);
    let pd = PositionDerivative::try_from(q.unit);
    let expect_ok = m == 1 && (s == 0 || s == -1 || s == -2);
    match r {
        Ok(c) => {
            assert!(expect_ok);
            let (k, v) = raw_parts(c);
            assert!(-(k as i8) == s);
            assert!(feq(v, x));
            let q2 = Quantity::from(c);
            assert!(feq(q2.value, x) && q2.unit == q.unit);
            assert!(pd == Ok(PositionDerivative::from(c)));
        }
        Err(()) => {
            assert!(!expect_ok);
            assert!(pd == Err(()));
        }
    }
    kani::cover!(r.is_ok() && s == -2, "reach: acceleration accepted");
    kani::cover!(r.is_err() && m == 1 && s == 1, "reach: mm*s rejected");
    kani::cover!(r.is_err() && m == 0 && s == 0, "reach: dimensionless rejected");
    reach!();
}

// ------------------------------------------------------------------------------------------------
// Per-derivative accessors
// ------------------------------------------------------------------------------------------------

//@ob fn="Command::get_position / get_velocity / get_acceleration" at=src/command.rs:25 clause="position command x: position Some(x mm), velocity Some(+0.0 mm/s), acceleration +0.0 mm/s^2; velocity command x: position None, velocity Some(x mm/s), acceleration +0.0; acceleration command x: position None, velocity None, acceleration x mm/s^2 (values bit-identical)"
#[kani::proof]
fn c14_command_accessors() {
    let c: Command = kani::any();
    let (k, x) = raw_parts(c);
    let p = c.get_position();
    let v = c.get_velocity();
    let a = c.get_acceleration();
    assert!(a.unit == Unit::new(1, -2));
    if k == 0 {
        match p {
            Some(q) => assert!(feq(q.value, x) && q.unit == Unit::new(1, 0)),
            None => assert!(false),
        }
        match v {
            Some(q) => assert!(feq(q.value, 0.0) && q.unit == Unit::new(1, -1)),
            None => assert!(false),
        }
        assert!(feq(a.value, 0.0));
    } else if k == 1 {
        assert!(p.is_none());
        match v {
            Some(q) => assert!(feq(q.value, x) && q.unit == Unit::new(1, -1)),
            None => assert!(false),
        }
        assert!(feq(a.value, 0.0));
    } else {
        assert!(p.is_none());
        assert!(v.is_none());
        assert!(feq(a.value, x));
    }
    kani::cover!(k == 0, "reach: position");
    kani::cover!(k == 1, "reach: velocity");
    kani::cover!(k == 2, "reach: acceleration");
    reach!();
}

//@ob fn="Command::get_position / get_velocity / get_acceleration vs Quantity::from" at=src/command.rs:25 clause="the accessor of the command's own derivative equals Quantity::from(command) (value bits and unit); accessors of lower derivatives are None, of higher derivatives zero"
#[kani::proof]
fn c14_command_accessors_vs_quantity() {
    let c: Command = kani::any();
    let q = Quantity::from(c);
    let own = match PositionDerivative::from(c) {
        PositionDerivative::Position => c.get_position(),
        PositionDerivative::Velocity => c.get_velocity(),
        PositionDerivative::Acceleration => Some(c.get_acceleration()),
    };
    match own {
        Some(o) => assert!(feq(o.value, q.value) && o.unit == q.unit),
        None => assert!(false),
    }
    reach!();
}

// ------------------------------------------------------------------------------------------------
// Command::from(State): lowest non-zero derivative
// ------------------------------------------------------------------------------------------------

/// Spec from the statement: "a command built from a state is its lowest non-zero derivative", read as the
/// code documents it: acceleration != 0.0 => Acceleration(a); else velocity != 0.0 => Velocity(v); else
/// Position(p).  IEEE comparison: -0.0 counts as zero; NaN != 0.0 is true, so a NaN acceleration gives an
/// acceleration command and (with zero acceleration) a NaN velocity gives a velocity command.
fn spec_command_from_state(s: State) -> (u8, f32) {
    if s.acceleration != 0.0 {
        (2, s.acceleration)
    } else if s.velocity != 0.0 {
        (1, s.velocity)
    } else {
        (0, s.position)
    }
}

//@ob fn="<Command as From<State>>::from" at=src/command.rs:55 prop=C14,C06,C07 clause="for every state (incl. -0.0, inf, NaN): acceleration != 0.0 => Acceleration(a); else velocity != 0.0 => Velocity(v); else Position(p); value bit-identical to the field; -0.0 counts as zero; a NaN acceleration (NaN != 0.0) yields Acceleration(NaN), zero acceleration with NaN velocity yields Velocity(NaN)"
#[kani::proof]
fn c14_command_from_state() {
    let s: State = kani::any();
    let c = Command::from(s);
    let (k, v) = raw_parts(c);
    let (sk, sv) = spec_command_from_state(s);
    assert!(k == sk);
    assert!(feq(v, sv));
    // spelled-out corner cases
    if s.acceleration.is_nan() {
        assert!(k == 2 && v.is_nan());
    }
    if feq(s.acceleration, -0.0) && s.velocity.is_nan() {
        assert!(k == 1 && v.is_nan());
    }
    if feq(s.acceleration, -0.0) && feq(s.velocity, -0.0) {
        assert!(k == 0 && feq(v, s.position));
    }
    // the chosen derivative is the state's own field of that derivative
    assert!(feq(v, s.get_value(PositionDerivative::from(c)).value));
    kani::cover!(k == 0 && s.position != 0.0, "reach: position command");
    kani::cover!(k == 1 && s.position != 0.0, "reach: velocity command");
    kani::cover!(k == 2 && s.velocity != 0.0, "reach: acceleration command");
    kani::cover!(s.acceleration.is_nan(), "reach: NaN acceleration");
    reach!();
}

// ------------------------------------------------------------------------------------------------
// Arithmetic
// ------------------------------------------------------------------------------------------------

//@ob prop=C14,C13 fn="<Command as Neg>::neg" at=src/command.rs:124 clause="negation keeps the kind and flips the sign bit of the value (bit-exact, NaN payload kept)"
#[kani::proof]
fn c14_command_neg() {
    let c: Command = kani::any();
    let (k, x) = raw_parts(c);
    let (k2, y) = raw_parts(-c);
    assert!(k2 == k);
    assert!(feq(y, -x));
    assert!(y.to_bits() == x.to_bits() ^ 0x8000_0000);
    reach!();
}

//@ob fn="<Command as Add>::add" at=src/command.rs:92 clause="same kind: result has that kind and value = f32 + of the two values (bit-identical)"
#[kani::proof]
fn c14_command_add_same_kind() {
    let d: PositionDerivative = kani::any();
    let (x, y): (f32, f32) = (kani::any(), kani::any());
    let r = Command::new(d, x) + Command::new(d, y);
    let (k, v) = raw_parts(r);
    assert!(k == rank_of(d));
    assert!(feq(v, x + y));
    reach!();
}

//@ob fn="<Command as Sub>::sub" at=src/command.rs:100 clause="same kind: result has that kind and value = f32 - of the two values, lhs - rhs (bit-identical)"
#[kani::proof]
fn c14_command_sub_same_kind() {
    let d: PositionDerivative = kani::any();
    let (x, y): (f32, f32) = (kani::any(), kani::any());
    let r = Command::new(d, x) - Command::new(d, y);
    let (k, v) = raw_parts(r);
    assert!(k == rank_of(d));
    assert!(feq(v, x - y));
    reach!();
}

//@ob fn="<Command as Add>::add" at=src/command.rs:92 clause="different kinds (all 6 ordered pairs, all values): ALWAYS panics"
#[kani::proof]
#[kani::should_panic]
fn c14_command_add_different_kind_panics() {
    always_panics_sentinel();
    let a: Command = kani::any();
    let b: Command = kani::any();
    kani::assume(raw_parts(a).0 != raw_parts(b).0);
    let _r = a + b;
    kani::cover!(true, "unreach: returned normally");
}

//@ob fn="<Command as Sub>::sub" at=src/command.rs:100 clause="different kinds (all 6 ordered pairs, all values): ALWAYS panics"
#[kani::proof]
#[kani::should_panic]
fn c14_command_sub_different_kind_panics() {
    always_panics_sentinel();
    let a: Command = kani::any();
    let b: Command = kani::any();
    kani::assume(raw_parts(a).0 != raw_parts(b).0);
    let _r = a - b;
    kani::cover!(true, "unreach: returned normally");
}

//@ob fn="<Command as AddAssign>::add_assign" at=src/command.rs:134 clause="different kinds: ALWAYS panics"
#[kani::proof]
#[kani::should_panic]
fn c14_command_add_assign_different_kind_panics() {
    always_panics_sentinel();
    let mut a: Command = kani::any();
    let b: Command = kani::any();
    kani::assume(raw_parts(a).0 != raw_parts(b).0);
    a += b;
    kani::cover!(true, "unreach: returned normally");
}

//@ob fn="<Command as SubAssign>::sub_assign" at=src/command.rs:139 clause="different kinds: ALWAYS panics"
#[kani::proof]
#[kani::should_panic]
fn c14_command_sub_assign_different_kind_panics() {
    always_panics_sentinel();
    let mut a: Command = kani::any();
    let b: Command = kani::any();
    kani::assume(raw_parts(a).0 != raw_parts(b).0);
    a -= b;
    kani::cover!(true, "unreach: returned normally");
}

//@ob fn="<Command as AddAssign>::add_assign" at=src/command.rs:134 clause="same kind: a += b leaves that kind with value f32 + (bit-identical), i.e. agrees with the binary form"
#[kani::proof]
fn c14_command_add_assign_same_kind() {
    let d: PositionDerivative = kani::any();
    let (x, y): (f32, f32) = (kani::any(), kani::any());
    let mut a = Command::new(d, x);
    a += Command::new(d, y);
    let (k, v) = raw_parts(a);
    assert!(k == rank_of(d));
    assert!(feq(v, x + y));
    reach!();
}

//@ob fn="<Command as SubAssign>::sub_assign" at=src/command.rs:139 clause="same kind: a -= b leaves that kind with value f32 - (bit-identical), i.e. agrees with the binary form"
#[kani::proof]
fn c14_command_sub_assign_same_kind() {
    let d: PositionDerivative = kani::any();
    let (x, y): (f32, f32) = (kani::any(), kani::any());
    let mut a = Command::new(d, x);
    a -= Command::new(d, y);
    let (k, v) = raw_parts(a);
    assert!(k == rank_of(d));
    assert!(feq(v, x - y));
    reach!();
}

//@ob prop=C14,C13 fn="<Command as Mul<f32>>::mul / <Command as Div<f32>>::div and assign forms" at=src/command.rs:108 clause="scaling never changes the kind and never panics, for every command and every f32 factor/divisor (0, inf, NaN included)"
#[kani::proof]
fn c14_command_scale_keeps_kind() {
    let c: Command = kani::any();
    let f: f32 = kani::any();
    let k = raw_parts(c).0;
    assert!(raw_parts(c * f).0 == k);
    assert!(raw_parts(c / f).0 == k);
    let mut m = c;
    m *= f;
    assert!(raw_parts(m).0 == k);
    let mut d = c;
    d /= f;
    assert!(raw_parts(d).0 == k);
    reach!();
}

//@ob prop=C14,C13 fn="<Command as Mul<f32>>::mul" at=src/command.rs:108 clause="for every command (any kind, any payload x) and every factor f (0, inf, NaN included): c * f has the same kind and value bit-identical to x * f"
#[kani::proof]
fn c14_command_mul_f32_value() {
    let c: Command = kani::any();
    let f: f32 = kani::any();
    let (k, x) = raw_parts(c);
    let (k2, y) = raw_parts(c * f);
    assert!(k2 == k);
    assert!(feq(y, x * f));
    reach!();
}

// NOT in Kani: "value of c / f is bit-identical to f32::from(c) / f".  The spec has to recompute one f32 division and
// SAT must prove two divider circuits equivalent: no result after 37 min (CaDiCaL) / 25 min (Kissat), also with a
// concrete variant per call; cvc5 is excluded by the enum payload (DESIGN T7).  Left to the Verus `exact` unit
// (DESIGN 5/C14: "V/x: Command + - * / value is the same f32 operator").  What Kani does prove about Div: the kind is
// kept and it never panics (c14_command_scale_keeps_kind) and `/=` is exactly `/` (c14_command_div_assign_is_div).

//@ob prop=C14,C13 fn="<Command as MulAssign<f32>>::mul_assign" at=src/command.rs:144 clause="a *= f leaves exactly (a * f): proved with <Command as Mul<f32>>::mul replaced by an uninterpreted stand-in, so for every interpretation of the binary form"
#[kani::proof]
#[kani::stub(<Command as Mul<f32>>::mul, stub_command_mul_f32)]
fn c14_command_mul_assign_is_mul() {
    let c: Command = kani::any();
    let f: f32 = kani::any();
    let mut a = c;
    a *= f;
    assert!(command_bits_eq(a, stub_command_mul_f32(c, f)));
    reach!();
}

//@ob prop=C14,C13 fn="<Command as DivAssign<f32>>::div_assign" at=src/command.rs:149 clause="a /= f leaves exactly (a / f): proved with <Command as Div<f32>>::div replaced by an uninterpreted stand-in, so for every interpretation of the binary form"
#[kani::proof]
#[kani::stub(<Command as Div<f32>>::div, stub_command_div_f32)]
fn c14_command_div_assign_is_div() {
    let c: Command = kani::any();
    let f: f32 = kani::any();
    let mut a = c;
    a /= f;
    assert!(command_bits_eq(a, stub_command_div_f32(c, f)));
    reach!();
}
