//@host src/streams/logic.rs
//@config dev
// C02 / C03 (stream level): `AndStream`, `OrStream`, `NotStream` and De Morgan duality between them.
// Inputs are `Scripted<bool>` getters with fully symbolic outputs.
#![allow(unused_imports, dead_code)]
use super::*;
use crate::verif_support::*;
use crate::*;

type OB = Output<bool, Er>;
type SB = Scripted<bool>;

/// The truth table in the doc comment of `AndStream`, row by row in the order it is printed there.
fn and_table(input1: Option<bool>, input2: Option<bool>) -> Option<bool> {
    match (input1, input2) {
        (Some(false), Some(false)) => Some(false),
        (None, Some(false)) => Some(false),
        (Some(true), Some(false)) => Some(false),
        (Some(false), None) => Some(false),
        (None, None) => None,
        (Some(true), None) => None,
        (Some(false), Some(true)) => Some(false),
        (None, Some(true)) => None,
        (Some(true), Some(true)) => Some(true),
    }
}
/// The truth table in the doc comment of `OrStream`, row by row in the order it is printed there.
fn or_table(input1: Option<bool>, input2: Option<bool>) -> Option<bool> {
    match (input1, input2) {
        (Some(false), Some(false)) => Some(false),
        (None, Some(false)) => None,
        (Some(true), Some(false)) => Some(true),
        (Some(false), None) => None,
        (None, None) => None,
        (Some(true), None) => Some(true),
        (Some(false), Some(true)) => Some(true),
        (None, Some(true)) => Some(true),
        (Some(true), Some(true)) => Some(true),
    }
}
/// Strong Kleene logic (statement C02: "strong Kleene logic with absent as unknown"): false < unknown < true,
/// and = minimum, or = maximum.
fn kleene_rank(x: Option<bool>) -> u8 {
    match x {
        Some(false) => 0,
        None => 1,
        Some(true) => 2,
    }
}
fn kleene_unrank(r: u8) -> Option<bool> {
    match r {
        0 => Some(false),
        1 => None,
        _ => Some(true),
    }
}
fn kleene_and(a: Option<bool>, b: Option<bool>) -> Option<bool> {
    let (x, y) = (kleene_rank(a), kleene_rank(b));
    kleene_unrank(if x < y { x } else { y })
}
fn kleene_or(a: Option<bool>, b: Option<bool>) -> Option<bool> {
    let (x, y) = (kleene_rank(a), kleene_rank(b));
    kleene_unrank(if x > y { x } else { y })
}
fn value_of(x: Option<Datum<bool>>) -> Option<bool> {
    match x {
        Some(d) => Some(d.value),
        None => None,
    }
}
/// Documented outcome of the binary logic streams: input 1's error first, then input 2's (both are read), unchanged;
/// otherwise the value is given by the documented table; the result is absent when the table says None; a present
/// result carries the newest timestamp of the PRESENT inputs (C03).
fn spec_logic<F: Fn(Option<bool>, Option<bool>) -> Option<bool>>(a: OB, b: OB, table: F) -> OB {
    let (x, y) = match (a, b) {
        (Err(e), _) => return Err(e),
        (Ok(_), Err(e)) => return Err(e),
        (Ok(x), Ok(y)) => (x, y),
    };
    let value = match table(value_of(x), value_of(y)) {
        None => return Ok(None),
        Some(v) => v,
    };
    let time = match (x, y) {
        (Some(p), Some(q)) => tmax(p.time, q.time),
        (Some(p), None) => p.time,
        (None, Some(q)) => q.time,
        (None, None) => return Ok(None),
    };
    Ok(Some(Datum::new(time, value)))
}
/// Documented outcome of `NotStream`: error and absent pass through; a present datum keeps its timestamp and has
/// its value negated.
fn spec_not(a: OB) -> OB {
    match a {
        Err(e) => Err(e),
        Ok(None) => Ok(None),
        Ok(Some(d)) => Ok(Some(Datum::new(d.time, !d.value))),
    }
}

macro_rules! logic_harness {
    ($name:ident, $stream:ident, $table:ident, $kleene:ident) => {
        #[kani::proof]
        fn $name() {
            let mut a = SB::new(any_output());
            let mut b = SB::new(any_output());
            let (ia, ib) = (a.out, b.out);
            let stream = $stream::<SB, SB, Er>::new(rf(&mut a), rf(&mut b));
            let r1 = stream.get();
            assert!(r1 == spec_logic(ia, ib, $table));
            // the documented table is strong Kleene logic with None as unknown (all nine rows)
            let (u, v): (Option<bool>, Option<bool>) = (kani::any(), kani::any());
            assert!($table(u, v) == $kleene(u, v));
            // purity
            let r2 = stream.get();
            assert!(r2 == r1);
            assert!(a.out == ia && b.out == ib && a.updates == 0 && b.updates == 0);
            kani::cover!(r1.is_err(), "result is an error");
            kani::cover!(r1 == Ok(None) && matches!((ia, ib), (Ok(Some(_)), Ok(None))), "absent result with input 1 present");
            kani::cover!(r1 == Ok(None) && matches!((ia, ib), (Ok(None), Ok(Some(_)))), "absent result with input 2 present");
            kani::cover!(matches!(r1, Ok(Some(_))) && matches!((ia, ib), (Ok(None), Ok(Some(_)))), "present result from input 2 alone");
            kani::cover!(matches!(r1, Ok(Some(_))) && matches!((ia, ib), (Ok(Some(_)), Ok(None))), "present result from input 1 alone");
            kani::cover!(matches!((ia, ib), (Ok(Some(x)), Ok(Some(y))) if x.time < y.time), "both present, input 1 older");
            kani::cover!(matches!((ia, ib), (Ok(Some(x)), Ok(Some(y))) if x.time == y.time), "both present, same time");
            kani::cover!(matches!((ia, ib), (Ok(Some(x)), Ok(Some(y))) if x.time > y.time), "both present, input 1 newer");
            reach!();
        }
    };
}
//@ob fn="<AndStream<G1,G2,E> as Getter<bool,E>>::get" at=src/streams/logic.rs:55 prop=C02,C03 clause="get()==spec for every assignment: input 1's error first, then input 2's, unchanged; value from the nine-row truth table of the AndStream doc comment (absent result where it says None); timestamp of a present result = newest of the present inputs (C03); the table equals strong Kleene conjunction; second get() equal, inputs unchanged"
logic_harness!(c02_and_spec, AndStream, and_table, kleene_and);
//@ob fn="<OrStream<G1,G2,E> as Getter<bool,E>>::get" at=src/streams/logic.rs:159 prop=C02,C03 clause="get()==spec for every assignment: input 1's error first, then input 2's, unchanged; value from the nine-row truth table of the OrStream doc comment (absent result where it says None); timestamp of a present result = newest of the present inputs (C03); the table equals strong Kleene disjunction; second get() equal, inputs unchanged"
logic_harness!(c02_or_spec, OrStream, or_table, kleene_or);

//@ob fn="<NotStream<G,E> as Getter<bool,E>>::get" at=src/streams/logic.rs:226 prop=C02,C03 clause="get()==spec: error returned unchanged, absent => absent, present => same timestamp, negated value; second get() equal, input unchanged"
#[kani::proof]
fn c02_not_spec() {
    let mut a = SB::new(any_output());
    let ia = a.out;
    let stream = NotStream::<SB, Er>::new(rf(&mut a));
    let r1 = stream.get();
    assert!(r1 == spec_not(ia));
    let r2 = stream.get();
    assert!(r2 == r1);
    assert!(a.out == ia && a.updates == 0);
    kani::cover!(r1.is_err(), "error");
    kani::cover!(r1 == Ok(None), "absent");
    kani::cover!(matches!(r1, Ok(Some(d)) if d.value), "true");
    kani::cover!(matches!(r1, Ok(Some(d)) if !d.value), "false");
    reach!();
}

//@ob fn="<AndStream<G1,G2,E> as Getter<bool,E>>::get" at=src/streams/logic.rs:55 prop=C02,C03 clause="De Morgan on the real streams: Not(And(a,b)).get() == Or(Not(a),Not(b)).get() for every assignment of a and b, including which error is returned and the result timestamp"
#[kani::proof]
fn c02_de_morgan_not_and() {
    let mut a = SB::new(any_output());
    let mut b = SB::new(any_output());
    let mut and = AndStream::<SB, SB, Er>::new(rf(&mut a), rf(&mut b));
    let lhs = NotStream::<AndStream<SB, SB, Er>, Er>::new(rf(&mut and));
    let mut not_a = NotStream::<SB, Er>::new(rf(&mut a));
    let mut not_b = NotStream::<SB, Er>::new(rf(&mut b));
    let rhs = OrStream::<NotStream<SB, Er>, NotStream<SB, Er>, Er>::new(rf(&mut not_a), rf(&mut not_b));
    let l = lhs.get();
    let r = rhs.get();
    assert!(l == r);
    kani::cover!(l.is_err(), "error");
    kani::cover!(l == Ok(None) && a.out != Ok(None), "absent with input 1 present");
    kani::cover!(matches!(l, Ok(Some(d)) if d.value), "true");
    kani::cover!(matches!(l, Ok(Some(d)) if !d.value), "false");
    reach!();
}
//@ob fn="<OrStream<G1,G2,E> as Getter<bool,E>>::get" at=src/streams/logic.rs:159 prop=C02,C03 clause="De Morgan dual on the real streams: Not(Or(a,b)).get() == And(Not(a),Not(b)).get() for every assignment of a and b, including which error is returned and the result timestamp"
#[kani::proof]
fn c02_de_morgan_not_or() {
    let mut a = SB::new(any_output());
    let mut b = SB::new(any_output());
    let mut or = OrStream::<SB, SB, Er>::new(rf(&mut a), rf(&mut b));
    let lhs = NotStream::<OrStream<SB, SB, Er>, Er>::new(rf(&mut or));
    let mut not_a = NotStream::<SB, Er>::new(rf(&mut a));
    let mut not_b = NotStream::<SB, Er>::new(rf(&mut b));
    let rhs = AndStream::<NotStream<SB, Er>, NotStream<SB, Er>, Er>::new(rf(&mut not_a), rf(&mut not_b));
    let l = lhs.get();
    let r = rhs.get();
    assert!(l == r);
    kani::cover!(l.is_err(), "error");
    kani::cover!(l == Ok(None) && a.out != Ok(None), "absent with input 1 present");
    kani::cover!(matches!(l, Ok(Some(d)) if d.value), "true");
    kani::cover!(matches!(l, Ok(Some(d)) if !d.value), "false");
    reach!();
}
//@ob fn="<NotStream<G,E> as Getter<bool,E>>::get" at=src/streams/logic.rs:226 prop=C02 clause="double negation on the real streams: Not(Not(a)).get() == a.get() for every assignment"
#[kani::proof]
fn c02_not_not_is_identity() {
    let mut a = SB::new(any_output());
    let ia = a.out;
    let mut inner = NotStream::<SB, Er>::new(rf(&mut a));
    let outer = NotStream::<NotStream<SB, Er>, Er>::new(rf(&mut inner));
    assert!(outer.get() == ia);
    reach!();
}
