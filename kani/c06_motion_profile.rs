//@host src/motion_profile.rs
//@config dev,rel_default
// C06: the six accessors of a MotionProfile (get_piece, get_mode, get_acceleration, get_velocity, get_position,
// History::get) describe the same instant, for a SYMBOLIC profile: every private field is kani::any(),
// constrained only by
//   INV   0 <= t1 <= t2 <= t3, start_pos in mm, start_vel in mm/s, max_acc in mm/s^2
//         (what the constructor establishes whenever it returns: c06_new_* below), end_command any command;
//   A7    t2 == t3  ||  t1 + t2 <= i64::MAX
//         the weakest precondition under which no Time arithmetic inside the accessors overflows i64:
//         only the end-acceleration piece [t2, t3) computes `t1 + t2 - t` (get_velocity) and
//         `DimensionlessInteger(2) * t1` (get_position), and 2*t1 <= t1 + t2.  c06_a7_is_needed shows the
//         overflow panic is real without it.  Profiles in the property's quantifier domain
//         (|positions| <= 1e4 mm, limits 1e-2..1e3) have t3 around 1e15 ns, far below 2^62.
// and a symbolic query time t over ALL of i64.
//
// MotionProfile contains a Command (enum with f32) so cvc5 cannot be used (DESIGN T7); everything is SAT.
// No float arithmetic is recomputed in a spec: values are compared bit-for-bit with moved values, with a
// unary minus, or (value clause of History::get) with the crate's Quantity operators replaced by
// deterministic uninterpreted stand-ins that keep the unit arithmetic (and its assertions) exact.
#![allow(unused_imports, dead_code)]
use crate::*;
use crate::verif_support::*;

/// "ALWAYS panics" obligations are `#[kani::should_panic]` harnesses whose real check is the `unreach:` cover after
/// the call.  Kani reports "no panics, but at least one was expected" as a failure WITHOUT a failed check when the
/// callee never panics (the driver then says UNDECIDED instead of refuted); this nondeterministic sentinel panic keeps
/// the should_panic verdict defined, so that a callee that returns normally is reported through the violated
/// `unreach:` cover of the named obligation.  It constrains nothing: the other branch continues to the call.
fn always_panics_sentinel() {
    if kani::any() {
        panic!("sentinel: not part of the obligation");
    }
}

// ------------------------------------------------------------------------------------------------
// symbolic profile
// ------------------------------------------------------------------------------------------------
fn a7_ok(t1: i64, t2: i64, t3: i64) -> bool {
    t2 == t3 || t1.checked_add(t2).is_some()
}
/// Profile satisfying INV (and A7 unless `skip_a7`).
fn any_profile_with(skip_a7: bool) -> MotionProfile {
    let t1: i64 = kani::any();
    let t2: i64 = kani::any();
    let t3: i64 = kani::any();
    kani::assume(0 <= t1 && t1 <= t2 && t2 <= t3);
    if !skip_a7 {
        kani::assume(a7_ok(t1, t2, t3));
    }
    MotionProfile {
        start_pos: Quantity::new(kani::any(), MILLIMETER),
        start_vel: Quantity::new(kani::any(), MILLIMETER_PER_SECOND),
        t1: Time(t1),
        t2: Time(t2),
        t3: Time(t3),
        max_acc: Quantity::new(kani::any(), MILLIMETER_PER_SECOND_SQUARED),
        end_command: kani::any(),
    }
}
fn any_profile() -> MotionProfile {
    any_profile_with(false)
}

// ------------------------------------------------------------------------------------------------
// independent specification of "which piece" (from the statement, on plain integers)
// ------------------------------------------------------------------------------------------------
/// 0 BeforeStart < 1 InitialAcceleration < 2 ConstantVelocity < 3 EndAcceleration < 4 Complete
fn rank(p: MotionProfilePiece) -> u8 {
    match p {
        MotionProfilePiece::BeforeStart => 0,
        MotionProfilePiece::InitialAcceleration => 1,
        MotionProfilePiece::ConstantVelocity => 2,
        MotionProfilePiece::EndAcceleration => 3,
        MotionProfilePiece::Complete => 4,
    }
}
/// Number of boundaries 0, t1, t2, t3 that are <= t (the boundaries are sorted by INV).
fn spec_rank(mp: &MotionProfile, t: i64) -> u8 {
    (t >= 0) as u8 + (t >= 0 && t >= mp.t1.0) as u8 + (t >= 0 && t >= mp.t2.0) as u8 + (t >= 0 && t >= mp.t3.0) as u8
}
fn kind_rank(d: PositionDerivative) -> u8 {
    match d {
        PositionDerivative::Position => 0,
        PositionDerivative::Velocity => 1,
        PositionDerivative::Acceleration => 2,
    }
}
fn cmd_parts(c: Command) -> (u8, f32) {
    match c {
        Command::Position(x) => (0, x),
        Command::Velocity(x) => (1, x),
        Command::Acceleration(x) => (2, x),
    }
}
fn hist(mp: &MotionProfile, t: Time) -> Option<Datum<Command>> {
    <MotionProfile as History<Command, Er>>::get(mp, t)
}
macro_rules! cover_pieces {
    ($r:expr) => {
        kani::cover!($r == 0, "reach: BeforeStart");
        kani::cover!($r == 1, "reach: InitialAcceleration");
        kani::cover!($r == 2, "reach: ConstantVelocity");
        kani::cover!($r == 3, "reach: EndAcceleration");
        kani::cover!($r == 4, "reach: Complete");
    };
}

// ------------------------------------------------------------------------------------------------
// pieces: table, order, boundaries
// ------------------------------------------------------------------------------------------------

//@ob fn="MotionProfile::get_piece" at=src/motion_profile.rs:120 clause="for every profile with 0<=t1<=t2<=t3 and every i64 t: BeforeStart iff t<0, InitialAcceleration iff 0<=t<t1, ConstantVelocity iff t1<=t<t2, EndAcceleration iff t2<=t<t3, Complete iff t>=t3 (rank = number of boundaries 0,t1,t2,t3 that are <= t)"
#[kani::proof]
fn c06_piece_table() {
    let mp = any_profile_with(true);
    let t: i64 = kani::any();
    let p = mp.get_piece(Time(t));
    assert!(rank(p) == spec_rank(&mp, t));
    assert!((p == MotionProfilePiece::BeforeStart) == (t < 0));
    assert!((p == MotionProfilePiece::Complete) == (t >= mp.t3.0));
    cover_pieces!(rank(p));
    kani::cover!(t == i64::MAX, "reach: t = i64::MAX");
    kani::cover!(t == i64::MIN, "reach: t = i64::MIN");
    reach!();
}

//@ob fn="MotionProfile::get_piece" at=src/motion_profile.rs:120 clause="pieces never go back as t grows: for all i64 t <= t', rank(get_piece(t)) <= rank(get_piece(t')) with BeforeStart<InitialAcceleration<ConstantVelocity<EndAcceleration<Complete"
#[kani::proof]
fn c06_piece_monotone() {
    let mp = any_profile_with(true);
    let t: i64 = kani::any();
    let u: i64 = kani::any();
    kani::assume(t <= u);
    let (a, b) = (rank(mp.get_piece(Time(t))), rank(mp.get_piece(Time(u))));
    assert!(a <= b);
    kani::cover!(a == 0 && b == 4, "reach: from before start to complete");
    kani::cover!(a == 1 && b == 3, "reach: from initial to end acceleration");
    kani::cover!(a == b && t < u, "reach: same piece at two instants");
    reach!();
}

//@ob fn="MotionProfile::get_piece" at=src/motion_profile.rs:120 clause="the piece changes exactly at the boundaries: get_piece(t-1) != get_piece(t) iff t is one of 0, t1, t2, t3; at t = 0 it leaves BeforeStart, at t = t3 it becomes Complete, at a boundary b the new piece is the one whose interval starts at b (empty pieces are skipped)"
#[kani::proof]
fn c06_piece_boundaries() {
    let mp = any_profile_with(true);
    let t: i64 = kani::any();
    kani::assume(t > i64::MIN);
    let before = mp.get_piece(Time(t - 1));
    let at = mp.get_piece(Time(t));
    let is_boundary = t == 0 || t == mp.t1.0 || t == mp.t2.0 || t == mp.t3.0;
    assert!((before != at) == is_boundary);
    if t == 0 {
        assert!(before == MotionProfilePiece::BeforeStart && at != MotionProfilePiece::BeforeStart);
    }
    if t == mp.t1.0 {
        assert!(rank(before) <= 1 && rank(at) >= 2);
    }
    if t == mp.t2.0 {
        assert!(rank(before) <= 2 && rank(at) >= 3);
    }
    if t == mp.t3.0 {
        assert!(rank(before) <= 3 && rank(at) == 4);
    }
    kani::cover!(is_boundary && rank(before) == 1 && rank(at) == 2, "reach: initial -> constant at t1");
    kani::cover!(is_boundary && rank(before) == 2 && rank(at) == 3, "reach: constant -> end at t2");
    kani::cover!(is_boundary && rank(before) == 3 && rank(at) == 4, "reach: end -> complete at t3");
    kani::cover!(is_boundary && rank(before) == 0 && rank(at) == 4, "reach: degenerate profile t3 = 0");
    kani::cover!(!is_boundary, "reach: interior instant");
    reach!();
}

// ------------------------------------------------------------------------------------------------
// piece <-> mode
// ------------------------------------------------------------------------------------------------

//@ob fn="MotionProfile::get_mode" at=src/motion_profile.rs:106 clause="mode is None exactly when the piece is BeforeStart (t<0); Acceleration during InitialAcceleration and EndAcceleration; Velocity during ConstantVelocity; the end command's kind once Complete; during the move it equals PositionDerivative::try_from(piece) and Unit::try_from(piece) is its unit, which are Err exactly for BeforeStart and Complete"
#[kani::proof]
fn c06_mode_table() {
    let mp = any_profile_with(true);
    let t: i64 = kani::any();
    let piece = mp.get_piece(Time(t));
    let mode = mp.get_mode(Time(t));
    assert!(mode.is_none() == (t < 0));
    assert!(mode.is_none() == (piece == MotionProfilePiece::BeforeStart));
    let want: Option<u8> = match rank(piece) {
        0 => None,
        1 | 3 => Some(2),
        2 => Some(1),
        _ => Some(cmd_parts(mp.end_command).0),
    };
    match (mode, want) {
        (None, None) => {}
        (Some(m), Some(w)) => assert!(kind_rank(m) == w),
        _ => assert!(false),
    }
    // the crate's own piece -> derivative -> unit conversions agree during the move
    let conv = PositionDerivative::try_from(piece);
    let conv_unit = Unit::try_from(piece);
    match rank(piece) {
        1 | 2 | 3 => {
            assert!(conv.ok() == mode);
            match (conv_unit, mode) {
                (Ok(u), Some(m)) => assert!(ueq(u, Unit::new(1, -(kind_rank(m) as i8)))),
                _ => assert!(false),
            }
        }
        _ => {
            assert!(conv.is_err());
            assert!(conv_unit.is_err());
        }
    }
    cover_pieces!(rank(piece));
    kani::cover!(rank(piece) == 4 && cmd_parts(mp.end_command).0 == 0, "reach: complete with position command");
    kani::cover!(rank(piece) == 4 && cmd_parts(mp.end_command).0 == 1, "reach: complete with velocity command");
    kani::cover!(rank(piece) == 4 && cmd_parts(mp.end_command).0 == 2, "reach: complete with acceleration command");
    reach!();
}

// ------------------------------------------------------------------------------------------------
// presence table, no panics
// ------------------------------------------------------------------------------------------------

//@ob fn="MotionProfile::get_acceleration / get_velocity / get_position" at=src/motion_profile.rs:134 clause="under INV and A7 (t2==t3 or t1+t2<=i64::MAX) no accessor panics for any i64 t (no Time overflow, no unit assertion); acceleration is None iff t<0; velocity is Some for 0<=t<t3 and after completion iff the end command is Position or Velocity; position is Some for 0<=t<t3 and after completion iff the end command is Position; during the move velocity carries mm/s and position mm"
#[kani::proof]
fn c06_presence_table() {
    let mp = any_profile();
    let t: i64 = kani::any();
    let r = rank(mp.get_piece(Time(t)));
    let a = mp.get_acceleration(Time(t));
    let v = mp.get_velocity(Time(t));
    let p = mp.get_position(Time(t));
    let ek = cmd_parts(mp.end_command).0;
    assert!(a.is_none() == (t < 0));
    let v_want = if t < 0 { false } else if t < mp.t3.0 { true } else { ek <= 1 };
    let p_want = if t < 0 { false } else if t < mp.t3.0 { true } else { ek == 0 };
    assert!(v.is_some() == v_want);
    assert!(p.is_some() == p_want);
    if let Some(q) = a {
        assert!(ueq(q.unit, Unit::new(1, -2)));
    }
    if let Some(q) = v {
        assert!(ueq(q.unit, Unit::new(1, -1)));
    }
    if let Some(q) = p {
        assert!(ueq(q.unit, Unit::new(1, 0)));
    }
    cover_pieces!(r);
    kani::cover!(r == 4 && v.is_some() && p.is_none(), "reach: complete, velocity only");
    kani::cover!(r == 4 && v.is_none(), "reach: complete, neither");
    kani::cover!(r == 4 && p.is_some(), "reach: complete, both");
    kani::cover!(r == 3 && t == i64::MAX - 1, "reach: end acceleration at the top of i64");
    reach!();
}

//@ob fn="MotionProfile::get_velocity" at=src/motion_profile.rs:148 clause="A7 is the WEAKEST precondition (characterisation of the excluded set, not a defect claimed by the property): for every profile satisfying INV but not A7 (t2 < t3 and t1 + t2 > i64::MAX) and every t in [t2, t3), get_velocity ALWAYS panics in this (debug) build on `t1 + t2` overflow"
#[kani::proof]
#[kani::should_panic]
fn c06_a7_excluded_set_panics() {
    always_panics_sentinel();
    let mp = any_profile_with(true);
    kani::assume(!a7_ok(mp.t1.0, mp.t2.0, mp.t3.0));
    let t: i64 = kani::any();
    kani::assume(mp.t2.0 <= t && t < mp.t3.0);
    let _v = mp.get_velocity(Time(t));
    kani::cover!(true, "unreach: returned normally");
}

// ------------------------------------------------------------------------------------------------
// acceleration value
// ------------------------------------------------------------------------------------------------

//@ob fn="MotionProfile::get_acceleration" at=src/motion_profile.rs:134 clause="value is bit-identical to max_acc during InitialAcceleration, +0.0 during ConstantVelocity, -max_acc (sign bit flipped) during EndAcceleration, and once Complete the end command's acceleration (its value for an acceleration command, +0.0 otherwise); unit mm/s^2 throughout"
#[kani::proof]
fn c06_acceleration_value() {
    let mp = any_profile_with(true);
    let t: i64 = kani::any();
    let r = rank(mp.get_piece(Time(t)));
    let a = mp.get_acceleration(Time(t));
    match a {
        None => assert!(r == 0),
        Some(q) => {
            assert!(ueq(q.unit, MILLIMETER_PER_SECOND_SQUARED));
            let want = match r {
                1 => mp.max_acc.value,
                2 => 0.0,
                3 => -mp.max_acc.value,
                4 => match mp.end_command {
                    Command::Acceleration(x) => x,
                    _ => 0.0,
                },
                _ => {
                    assert!(false);
                    0.0
                }
            };
            assert!(feq(q.value, want));
            if r == 3 {
                assert!(q.value.to_bits() == mp.max_acc.value.to_bits() ^ 0x8000_0000);
            }
            if r == 4 {
                assert!(feq(q.value, mp.end_command.get_acceleration().value));
            }
        }
    }
    cover_pieces!(r);
    reach!();
}

// ------------------------------------------------------------------------------------------------
// History::get
// ------------------------------------------------------------------------------------------------

//@ob fn="<MotionProfile as History<Command, E>>::get" at=src/motion_profile.rs:30 clause="under INV and A7, for every i64 t: never panics (none of the three expect()s fires, no overflow, no unit assertion); None iff t<0; the datum is stamped with exactly t; the command's kind is get_mode(t)"
#[kani::proof]
fn c06_history_total_stamp_kind() {
    let mp = any_profile();
    let t: i64 = kani::any();
    let h = hist(&mp, Time(t));
    let mode = mp.get_mode(Time(t));
    let r = rank(mp.get_piece(Time(t)));
    assert!(h.is_none() == (t < 0));
    match (h, mode) {
        (None, None) => {}
        (Some(d), Some(m)) => {
            assert!(d.time.0 == t);
            assert!(cmd_parts(d.value).0 == kind_rank(m));
            assert!(PositionDerivative::from(d.value) == m);
        }
        _ => assert!(false),
    }
    cover_pieces!(r);
    kani::cover!(h.is_some() && t == i64::MAX, "reach: t = i64::MAX");
    kani::cover!(r == 4 && cmd_parts(mp.end_command).0 == 0, "reach: complete with position command");
    kani::cover!(r == 4 && cmd_parts(mp.end_command).0 == 1, "reach: complete with velocity command");
    kani::cover!(r == 4 && cmd_parts(mp.end_command).0 == 2, "reach: complete with acceleration command");
    reach!();
}

// Deterministic uninterpreted stand-ins for the Quantity operator impls reached from get_velocity /
// get_position (`Quantity*Quantity`, `Quantity+Quantity`, `Quantity-Quantity`, `Quantity::from(Time)`,
// `Time*Time`, `Time/DimensionlessInteger` stays real: it is integer).  The unit arithmetic is the real one
// (`Unit` operators, with their assertions), only the f32 value is replaced by a cheap injective bit mix, so
// "the history value is bit-identical to the accessor's value" is proved for EVERY interpretation of the float
// operators, in particular the IEEE one, without bit-blasting two copies of each multiplier/divider.
fn stub_q_mul(a: Quantity, b: Quantity) -> Quantity {
    Quantity::new(fmix(T_MUL, a.value, b.value), a.unit * b.unit)
}
fn stub_q_add(a: Quantity, b: Quantity) -> Quantity {
    Quantity::new(fmix(T_ADD, a.value, b.value), a.unit + b.unit)
}
fn stub_q_sub(a: Quantity, b: Quantity) -> Quantity {
    Quantity::new(fmix(T_SUB, a.value, b.value), a.unit - b.unit)
}
fn stub_q_from_time(t: Time) -> Quantity {
    Quantity::new(f32::from_bits(mix(T_DIVF, t.0 as u32, (t.0 >> 32) as u32)), SECOND)
}

//@ob fn="<MotionProfile as History<Command, E>>::get" at=src/motion_profile.rs:30 clause="the command's raw f32 is bit-identical to the value of the accessor matching its kind (get_position / get_velocity / get_acceleration at the same t), and that accessor's unit is the kind's unit; proved with the Quantity float operators replaced by uninterpreted stand-ins (exact unit arithmetic), hence for every interpretation of + - * and Time->seconds"
#[kani::proof]
#[kani::stub(<Quantity as Mul<Quantity>>::mul, stub_q_mul)]
#[kani::stub(<Quantity as Add<Quantity>>::add, stub_q_add)]
#[kani::stub(<Quantity as Sub<Quantity>>::sub, stub_q_sub)]
#[kani::stub(<Quantity as core::convert::From<Time>>::from, stub_q_from_time)]
#[kani::solver(bin = "kissat")]
fn c06_history_value_matches_accessor() {
    let mp = any_profile();
    let t: i64 = kani::any();
    kani::assume(t >= 0);
    let r = rank(mp.get_piece(Time(t)));
    let h = hist(&mp, Time(t));
    match h {
        None => assert!(false),
        Some(d) => {
            let (k, x) = cmd_parts(d.value);
            let acc = match k {
                0 => mp.get_position(Time(t)),
                1 => mp.get_velocity(Time(t)),
                _ => mp.get_acceleration(Time(t)),
            };
            match acc {
                None => assert!(false),
                Some(q) => {
                    assert!(feq(x, q.value));
                    assert!(ueq(q.unit, Unit::new(1, -(k as i8))));
                    let back = Quantity::from(d.value);
                    assert!(feq(back.value, q.value) && ueq(back.unit, q.unit));
                }
            }
            kani::cover!(r == 2 && k == 1, "reach: constant velocity piece reports a velocity");
            kani::cover!(r == 4 && k == 0, "reach: complete reports a position");
            kani::cover!(r == 3 && k == 2, "reach: end acceleration reports an acceleration");
        }
    }
    cover_pieces_after_start(r);
    reach!();
}
fn cover_pieces_after_start(r: u8) {
    kani::cover!(r == 1, "reach: InitialAcceleration");
    kani::cover!(r == 2, "reach: ConstantVelocity");
    kani::cover!(r == 3, "reach: EndAcceleration");
    kani::cover!(r == 4, "reach: Complete");
}

//@ob fn="<MotionProfile as History<Command, E>>::get" at=src/motion_profile.rs:30 clause="with the REAL float operators: during InitialAcceleration the history is Acceleration(max_acc), during EndAcceleration Acceleration(-max_acc), bit-identical (no float arithmetic on this path except the unary minus)"
#[kani::proof]
#[kani::solver(bin = "kissat")]
fn c06_history_acceleration_pieces() {
    let mp = any_profile();
    let t: i64 = kani::any();
    let r = rank(mp.get_piece(Time(t)));
    kani::assume(r == 1 || r == 3);
    match hist(&mp, Time(t)) {
        None => assert!(false),
        Some(d) => {
            let (k, x) = cmd_parts(d.value);
            assert!(k == 2 && d.time.0 == t);
            if r == 1 {
                assert!(feq(x, mp.max_acc.value));
            } else {
                assert!(feq(x, -mp.max_acc.value));
            }
        }
    }
    kani::cover!(r == 1, "reach: InitialAcceleration");
    kani::cover!(r == 3, "reach: EndAcceleration");
    reach!();
}

//@ob fn="<MotionProfile as History<Command, E>>::get" at=src/motion_profile.rs:30 clause="from completion onward, for EVERY t with t3 <= t <= i64::MAX: the history is exactly Datum(t, end_command) (kind and value bit-identical), and get_position / get_velocity / get_acceleration return the end command's own accessors (presence, unit, value bits); the Quantity float operators (dead on this path) are replaced by the uninterpreted stand-ins to keep the formula small"
#[kani::proof]
#[kani::stub(<Quantity as Mul<Quantity>>::mul, stub_q_mul)]
#[kani::stub(<Quantity as Add<Quantity>>::add, stub_q_add)]
#[kani::stub(<Quantity as Sub<Quantity>>::sub, stub_q_sub)]
#[kani::stub(<Quantity as core::convert::From<Time>>::from, stub_q_from_time)]
fn c06_history_after_completion_is_end_command() {
    let mp = any_profile_with(true);
    let t: i64 = kani::any();
    kani::assume(t >= mp.t3.0);
    assert!(mp.get_piece(Time(t)) == MotionProfilePiece::Complete);
    match hist(&mp, Time(t)) {
        None => assert!(false),
        Some(d) => {
            assert!(d.time.0 == t);
            assert!(command_bits_eq(d.value, mp.end_command));
        }
    }
    let same = |a: Option<Quantity>, b: Option<Quantity>| match (a, b) {
        (None, None) => true,
        (Some(x), Some(y)) => feq(x.value, y.value) && ueq(x.unit, y.unit),
        _ => false,
    };
    assert!(same(mp.get_position(Time(t)), mp.end_command.get_position()));
    assert!(same(mp.get_velocity(Time(t)), mp.end_command.get_velocity()));
    assert!(same(mp.get_acceleration(Time(t)), Some(mp.end_command.get_acceleration())));
    kani::cover!(t == i64::MAX, "reach: t = i64::MAX");
    kani::cover!(t == mp.t3.0, "reach: t = t3");
    kani::cover!(mp.t3.0 == i64::MAX, "reach: t3 = i64::MAX");
    reach!();
}

// ------------------------------------------------------------------------------------------------
// constructor
// ------------------------------------------------------------------------------------------------
// The constructor's phase durations are quotients of f32s and its boundaries are `(seconds * 1e9) as i64`.
// cvc5 cannot be used (Command inside MotionProfile, DESIGN T7) and under SAT neither three dividers nor the
// monotonicity of a rounded multiplication finish (300 s budget each, CaDiCaL, Kissat, cvc5).  The proof is
// therefore modular:
//  (1) c06_new_panics_or_invariant: the constructor with
//      * <Quantity as Mul<Quantity>>::mul and <Quantity as Div<Quantity>>::div replaced by stand-ins that return
//        an ARBITRARY f32 with the exact unit arithmetic (sound over-approximation of every rounding: the
//        invariant does not depend on which quotient comes out, only on the three `assert!(.. >= 0.0)`),
//      * <Time as TryFrom<Quantity>>::try_from replaced by an arbitrary function that is Err exactly for a
//        non-SECOND unit, maps non-negative seconds to non-negative nanoseconds and is monotone
//        (abstraction CONV);
//      the f32 additions `t2 = t1 + d_t2`, `t3 = t2 + d_t3`, abs, neg, sub, Command::from are the real code.
//  (2) the real conversion satisfies CONV: c06_conv_unit_and_sign (unit test, sign preservation),
//      c06_conv_monotone_given_mul_monotone (monotone PROVIDED f32 multiplication by 1e9 is monotone on
//      0 <= x <= y).  The remaining fact L1 "0 <= x <= y  =>  x * 1e9f32 <= y * 1e9f32" is the IEEE-754
//      monotonicity of correctly rounded multiplication by a positive constant; it is NOT proved in Kani
//      (times out) and is left to the Verus/idealised side or the trusted base (A1-style float axiom).
fn havoc_q_mul(a: Quantity, b: Quantity) -> Quantity {
    Quantity::new(kani::any(), a.unit * b.unit)
}
fn havoc_q_div(a: Quantity, b: Quantity) -> Quantity {
    Quantity::new(kani::any(), a.unit / b.unit)
}
/// Same over-approximation, but the k-th quotient (k = 0..4 in execution order) is a value chosen by the harness,
/// so that "the constructor's three assert!s pass" can be stated as a precondition: in execution order the
/// constructor divides for t1 (k=0), d_t1_pos/2 (k=1), d_t3 (k=2), d_t3_pos/2 (k=3), d_t2 (k=4).  If this
/// numbering were wrong the harness would fail on the constructor's own assert!s, not pass unsoundly.
static mut DIV_K: u8 = 0;
static mut DIV_VALS: [f32; 5] = [0.0; 5];
fn seq_q_div(a: Quantity, b: Quantity) -> Quantity {
    let v = unsafe {
        let k = DIV_K;
        DIV_K = if k < 5 { k + 1 } else { k };
        if k < 5 { DIV_VALS[k as usize] } else { kani::any() }
    };
    Quantity::new(v, a.unit / b.unit)
}
fn choose_quotients() -> [f32; 5] {
    let q: [f32; 5] = [kani::any(), kani::any(), kani::any(), kani::any(), kani::any()];
    unsafe {
        DIV_K = 0;
        DIV_VALS = q;
    }
    q
}
static mut CONV_N: u8 = 0;
static mut CONV_IN: [f32; 3] = [0.0; 3];
static mut CONV_OUT: [i64; 3] = [0; 3];
/// Abstraction CONV of `<Time as TryFrom<Quantity>>::try_from`: an arbitrary sign-preserving monotone map,
/// consistent across the (at most three) calls the constructor makes.
fn conv_abstract(was: Quantity) -> Result<Time, ()> {
    if !ueq(was.unit, Unit::new(0, 1)) {
        return Err(());
    }
    let out: i64 = kani::any();
    if was.value >= 0.0 {
        kani::assume(out >= 0);
    }
    unsafe {
        let n = CONV_N;
        assert!(n < 3);
        let mut i = 0u8;
        while i < 3 {
            if i < n {
                let (xin, xout) = (CONV_IN[i as usize], CONV_OUT[i as usize]);
                if xin <= was.value {
                    kani::assume(xout <= out);
                }
                if was.value <= xin {
                    kani::assume(out <= xout);
                }
            }
            i += 1;
        }
        CONV_IN[n as usize] = was.value;
        CONV_OUT[n as usize] = out;
        CONV_N = n + 1;
    }
    Ok(Time(out))
}
fn any_unit_small() -> Unit {
    let m: i8 = kani::any();
    let s: i8 = kani::any();
    kani::assume(m >= -8 && m <= 8 && s >= -8 && s <= 8);
    Unit::new(m, s)
}

//@ob fn="MotionProfile::new" at=src/motion_profile.rs:58 prop=C06,C07 clause="for every start/end state (any f32 incl. inf/NaN) and every max_vel (mm/s) and max_acc (mm/s^2) value: if the three quotients t1, d_t3, d_t2 are >= 0.0 (i.e. the constructor's three assert!s pass) the constructor returns WITHOUT any panic a profile with 0 <= t1 <= t2 <= t3, start_pos = start position in mm, start_vel = start velocity in mm/s (bit-identical), max_acc in mm/s^2, end_command == Command::from(end_state) bit-identically.  Modular: Quantity*Quantity and Quantity/Quantity values arbitrary (units exact); seconds->ns conversion abstracted as unit-checked, sign-preserving, monotone (CONV, see c06_conv_*; rests on L1: x<=y => x*1e9<=y*1e9 in f32, not proved in Kani)"
#[kani::proof]
#[kani::unwind(4)]
#[kani::stub(<Quantity as Mul<Quantity>>::mul, havoc_q_mul)]
#[kani::stub(<Quantity as Div<Quantity>>::div, seq_q_div)]
#[kani::stub(<Time as core::convert::TryFrom<Quantity>>::try_from, conv_abstract)]
fn c06_new_invariant() {
    let start: State = kani::any();
    let end: State = kani::any();
    let max_vel = Quantity::new(kani::any(), MILLIMETER_PER_SECOND);
    let max_acc = Quantity::new(kani::any(), MILLIMETER_PER_SECOND_SQUARED);
    let q = choose_quotients();
    kani::assume(q[0] >= 0.0 && q[2] >= 0.0 && q[4] >= 0.0);
    let mp = MotionProfile::new(start, end, max_vel, max_acc);
    assert!(unsafe { DIV_K } == 5);
    assert!(0 <= mp.t1.0 && mp.t1.0 <= mp.t2.0 && mp.t2.0 <= mp.t3.0);
    assert!(ueq(mp.start_pos.unit, Unit::new(1, 0)) && feq(mp.start_pos.value, start.position));
    assert!(ueq(mp.start_vel.unit, Unit::new(1, -1)) && feq(mp.start_vel.value, start.velocity));
    assert!(ueq(mp.max_acc.unit, Unit::new(1, -2)));
    assert!(command_bits_eq(mp.end_command, Command::from(end)));
    kani::cover!(mp.t1.0 > 0 && mp.t1.0 < mp.t2.0 && mp.t2.0 < mp.t3.0, "reach: three non-empty pieces");
    kani::cover!(mp.t3.0 == i64::MAX, "reach: saturated t3");
    kani::cover!(mp.t3.0 == 0, "reach: degenerate profile");
    kani::cover!(cmd_parts(mp.end_command).0 == 1, "reach: velocity end command");
    reach!();
}

//@ob fn="MotionProfile::new" at=src/motion_profile.rs:58 prop=C06,C07 clause="if one of the three quotients t1, d_t3, d_t2 is negative or NaN the constructor ALWAYS panics (so: it returns exactly when the three are >= 0.0, given right units)"
#[kani::proof]
#[kani::should_panic]
#[kani::unwind(4)]
#[kani::stub(<Quantity as Mul<Quantity>>::mul, havoc_q_mul)]
#[kani::stub(<Quantity as Div<Quantity>>::div, seq_q_div)]
#[kani::stub(<Time as core::convert::TryFrom<Quantity>>::try_from, conv_abstract)]
fn c06_new_negative_duration_panics() {
    always_panics_sentinel();
    let start: State = kani::any();
    let end: State = kani::any();
    let max_vel = Quantity::new(kani::any(), MILLIMETER_PER_SECOND);
    let max_acc = Quantity::new(kani::any(), MILLIMETER_PER_SECOND_SQUARED);
    let q = choose_quotients();
    kani::assume(!(q[0] >= 0.0 && q[2] >= 0.0 && q[4] >= 0.0));
    let _mp = MotionProfile::new(start, end, max_vel, max_acc);
    kani::cover!(true, "unreach: returned normally");
}

//@ob fn="MotionProfile::new" at=src/motion_profile.rs:58 configs=dev clause="wrong dimension of max_vel or max_acc (any exponents in [-8,8] other than mm/s and mm/s^2): the constructor ALWAYS panics (same over-approximation of * and / values; real Time::try_from)"
#[kani::proof]
#[kani::should_panic]
#[kani::stub(<Quantity as Mul<Quantity>>::mul, havoc_q_mul)]
#[kani::stub(<Quantity as Div<Quantity>>::div, havoc_q_div)]
fn c06_new_wrong_units_panics() {
    always_panics_sentinel();
    let start: State = kani::any();
    let end: State = kani::any();
    let max_vel = Quantity::new(kani::any(), any_unit_small());
    let max_acc = Quantity::new(kani::any(), any_unit_small());
    kani::assume(!ueq(max_vel.unit, Unit::new(1, -1)) || !ueq(max_acc.unit, Unit::new(1, -2)));
    let _mp = MotionProfile::new(start, end, max_vel, max_acc);
    kani::cover!(true, "unreach: returned normally");
}

//@ob fn="<Time as TryFrom<Quantity>>::try_from" at=src/dimensions.rs:140 configs=dev clause="CONV part 1 (real code): Err(()) exactly when the unit is not SECOND (all i8 x i8 units); for a non-negative f32 of seconds (inf included) the result is Ok and non-negative"
#[kani::proof]
fn c06_conv_unit_and_sign() {
    let x: f32 = kani::any();
    let u = Unit::new(kani::any::<i8>(), kani::any::<i8>());
    let r = Time::try_from(Quantity::new(x, u));
    assert!(r.is_ok() == ueq(u, Unit::new(0, 1)));
    if let Ok(t) = r {
        if x >= 0.0 {
            assert!(t.0 >= 0);
        }
    }
    kani::cover!(r.is_ok() && x == f32::INFINITY, "reach: infinite seconds");
    kani::cover!(r.is_err(), "reach: wrong unit");
    reach!();
}

//@ob fn="<Time as TryFrom<Quantity>>::try_from" at=src/dimensions.rs:140 clause="CONV part 2 (real code): for 0 <= x <= y, PROVIDED x*1e9 <= y*1e9 as f32 (L1, IEEE monotonicity of correctly rounded multiplication, assumed here), try_from(x s) <= try_from(y s)"
#[kani::proof]
#[kani::solver(bin = "kissat")]
fn c06_conv_monotone_given_mul_monotone() {
    let x: f32 = kani::any();
    let y: f32 = kani::any();
    kani::assume(x >= 0.0 && x <= y);
    kani::assume(x * 1_000_000_000.0 <= y * 1_000_000_000.0);
    let a = Time::try_from(Quantity::new(x, SECOND));
    let b = Time::try_from(Quantity::new(y, SECOND));
    match (a, b) {
        (Ok(a), Ok(b)) => assert!(a.0 <= b.0),
        _ => assert!(false),
    }
    kani::cover!(x < y, "reach: distinct inputs");
    reach!();
}

//@ob fn="<Quantity as Add<Quantity>>::add" at=src/dimensions.rs:679 clause="the f32 additions the constructor uses for t2 = t1 + d_t2 and t3 = t2 + d_t3 are monotone with true IEEE semantics: x >= 0 and d >= 0 (inf allowed) => x + d >= x, x + d >= d, never NaN (cvc5, enum-free)"
#[kani::proof]
#[kani::solver(cvc5)]
fn c06_new_time_addition_monotone() {
    let x: f32 = kani::any();
    let d: f32 = kani::any();
    kani::assume(x >= 0.0 && d >= 0.0);
    let s = Quantity::new(x, SECOND) + Quantity::new(d, SECOND);
    assert!(s.value >= x && s.value >= d);
    assert!(ueq(s.unit, SECOND));
    reach!();
}
