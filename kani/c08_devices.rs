//@host src/devices.rs
//@config dev
// C08: device update projects the states read at the device's terminals onto the mechanical constraint.
// Technique (DESIGN 3.1 "stubbed operator impls"): the State operator impls are replaced by uninterpreted
// stand-ins and each terminal's own state slot after `update()` is compared bit for bit with the expected
// EXPRESSION TREE (written out in every clause= text).  The real-number meaning of the trees (constraint
// satisfied, least-squares projection, fixed points) is proved elsewhere from the same tree text.
// Notation in clauses:  sK / tK = value / timestamp of the state READ at terminal K before the update;
// `X := tree @time` = terminal X's own state slot afterwards; max = newest timestamp; `-` = not written (slot
// keeps its previous content bit for bit).  Command slots are symbolic as well in every harness (any subset
// present): the state results do not depend on them.
#![allow(unused_imports, dead_code, unused_macros)]
use crate::*;
use crate::verif_support::*;
use super::*;
include!("_c08_c13_common.rs");

// ======================================================================================== Invert
/// Spec (statement: "side2 = -side1", "a terminal that has no information receives the value implied by the
/// others", "stamped with the newest contributing time"): what is written to (term1, term2).
fn invert_state_spec(g1: SSlot, g2: SSlot) -> (SSlot, SSlot) {
    match (g1, g2) {
        (None, None) => (None, None),
        (Some(d1), None) => (None, Some(Datum::new(d1.time, sneg(d1.value)))),
        (None, Some(d2)) => (Some(Datum::new(d2.time, sneg(d2.value))), None),
        (Some(d1), Some(d2)) => {
            let t = tmax(d1.time, d2.time);
            let new = sdiv(ssub(d1.value, d2.value), 2.0);
            (Some(Datum::new(t, new)), Some(Datum::new(t, sneg(new))))
        }
    }
}
macro_rules! invert_state_case {
    ($name:ident, $h1:expr, $h2:expr) => {
        stubbed! {
        fn $name() {
            let mut dev = Invert::<Er>::new();
            let s1: SSlot = kani::any(); let s2: SSlot = kani::any();
            let c1: CSlot = kani::any(); let c2: CSlot = kani::any();
            kani::assume(s1.is_some() == $h1 && s2.is_some() == $h2);
            put(&dev.term1, s1, c1); put(&dev.term2, s2, c2);
            let r = dev.update();
            assert!(r.is_ok());
            let (w1, w2) = invert_state_spec(s1, s2);
            assert!(ss_eq(slot_s(&dev.term1), after_s(w1, s1)));
            assert!(ss_eq(slot_s(&dev.term2), after_s(w2, s2)));
            assert!(unlinked(&dev.term1) && unlinked(&dev.term2));
            reach!();
        }
        }
    };
}
//@ob fn="<Invert<E> as Updatable<E>>::update" at=src/devices.rs:38 clause="neither terminal has a state: term1 := -; term2 := - (nothing written, Ok, no panic)"
invert_state_case!(c08_invert_neither, false, false);
//@ob fn="<Invert<E> as Updatable<E>>::update" at=src/devices.rs:38 prop=C08,C03 also=rel_check clause="only side 1 has a state: term1 := - (unchanged); term2 := -(s1) @t1"
invert_state_case!(c08_invert_only1, true, false);
//@ob fn="<Invert<E> as Updatable<E>>::update" at=src/devices.rs:38 prop=C08,C03 also_thorough=rel_check clause="only side 2 has a state: term1 := -(s2) @t2; term2 := - (unchanged)"
invert_state_case!(c08_invert_only2, false, true);
//@ob fn="<Invert<E> as Updatable<E>>::update" at=src/devices.rs:38 prop=C08,C03 also_thorough=rel_check clause="both present: term1 := (s1 - s2)/2 @max(t1,t2); term2 := -((s1 - s2)/2) @max(t1,t2)"
invert_state_case!(c08_invert_both, true, true);

// Harness with connected partner terminals: update() consumes the terminal READ (C09's contract: mean of own
// and partner slot), not the raw own slot; partners' slots and the links are left alone.
//@ob fn="<Invert<E> as Updatable<E>>::update" at=src/devices.rs:38 prop=C08,C09 clause="each device terminal connected to an external terminal, all 16 have/lack subsets of the 4 state slots: with gK = terminal read (own,partner both: (own + partner)/2 @max; one: that one; none: none) the own slots become exactly the inverter trees of (g1,g2); partner slots and links unchanged"
stubbed! {
fn c08_invert_reads_connected_terminals() {
    let mut dev = Invert::<Er>::new();
    let ext1 = Terminal::<Er>::new();
    let ext2 = Terminal::<Er>::new();
    connect(dev.get_terminal_1(), &ext1);
    connect(dev.get_terminal_2(), &ext2);
    let s1: SSlot = kani::any(); let s2: SSlot = kani::any();
    let e1: SSlot = kani::any(); let e2: SSlot = kani::any();
    put(&dev.term1, s1, None); put(&dev.term2, s2, None);
    put(&ext1, e1, None); put(&ext2, e2, None);
    let r = dev.update();
    assert!(r.is_ok());
    let (w1, w2) = invert_state_spec(term_read_s(s1, e1), term_read_s(s2, e2));
    assert!(ss_eq(slot_s(&dev.term1), after_s(w1, s1)));
    assert!(ss_eq(slot_s(&dev.term2), after_s(w2, s2)));
    assert!(ss_eq(slot_s(&ext1), e1) && ss_eq(slot_s(&ext2), e2));
    assert!(core::ptr::eq(dev.term1.borrow().other.unwrap(), &ext1));
    assert!(core::ptr::eq(dev.term2.borrow().other.unwrap(), &ext2));
    assert!(core::ptr::eq(ext1.borrow().other.unwrap(), &dev.term1));
    assert!(core::ptr::eq(ext2.borrow().other.unwrap(), &dev.term2));
    reach!();
}
}

// update_terminals() runs first: a getter followed by terminal 1 is consulted before the states are read.
//@ob fn="<Invert<E> as Updatable<E>>::update" at=src/devices.rs:39 prop=C08,C15 clause="update_terminals first: terminal 1 follows a getter whose output is Err(e) | Ok(None) | Ok(Some(d)): Err(e) => update returns Err(e) and no slot changes; Ok(None) => as without following; Ok(Some(d)) => term1's own slot is first set to d.value and the inverter trees are computed from that"
stubbed! {
fn c08_invert_update_terminals_first() {
    let mut dev = Invert::<Er>::new();
    let mut src: Scripted<Datum<State>> = Scripted::new(any_output::<Datum<State>>());
    let s1: SSlot = kani::any(); let s2: SSlot = kani::any();
    put(&dev.term1, s1, None); put(&dev.term2, s2, None);
    dev.term1.borrow_mut().settable_data_state.following = Some(rf_dyn(&mut src));
    let r = dev.update();
    match src.out {
        Err(e) => {
            assert!(r == Err(e));
            assert!(ss_eq(slot_s(&dev.term1), s1) && ss_eq(slot_s(&dev.term2), s2));
        }
        Ok(fed) => {
            assert!(r.is_ok());
            let s1b = match fed { Some(d) => Some(d.value), None => s1 };
            let (w1, w2) = invert_state_spec(s1b, s2);
            assert!(ss_eq(slot_s(&dev.term1), after_s(w1, s1b)));
            assert!(ss_eq(slot_s(&dev.term2), after_s(w2, s2)));
        }
    }
    assert!(src.gets.get() == 1);
    reach!();
}
}

// ======================================================================================== GearTrain
/// Spec (statement: "side2 = ratio*side1", least-squares tree, one-sided propagation).  `r*r + 1.0` is plain
/// f32 arithmetic of the device (not an operator impl): recomputed here with the identical scalar expression.
fn gear_state_spec(g1: SSlot, g2: SSlot, r: f32) -> (SSlot, SSlot) {
    match (g1, g2) {
        (None, None) => (None, None),
        (Some(d1), None) => (None, Some(Datum::new(d1.time, smul(d1.value, r)))),
        (None, Some(d2)) => (Some(Datum::new(d2.time, sdiv(d2.value, r))), None),
        (Some(d1), Some(d2)) => {
            let t = tmax(d1.time, d2.time);
            let d = r * r + 1.0;
            let x = sadd(d1.value, smul(d2.value, r));
            (Some(Datum::new(t, sdiv(x, d))), Some(Datum::new(t, sdiv(smul(x, r), d))))
        }
    }
}
macro_rules! gear_state_case {
    ($name:ident, $h1:expr, $h2:expr $(, #[$attr:meta])*) => {
        stubbed! {
        $(#[$attr])*
        fn $name() {
            let ratio: f32 = kani::any();
            let mut dev = GearTrain::<Er>::with_ratio_raw(ratio);
            let s1: SSlot = kani::any(); let s2: SSlot = kani::any();
            let c1: CSlot = kani::any(); let c2: CSlot = kani::any();
            kani::assume(s1.is_some() == $h1 && s2.is_some() == $h2);
            put(&dev.term1, s1, c1); put(&dev.term2, s2, c2);
            let r = dev.update();
            assert!(r.is_ok());
            let (w1, w2) = gear_state_spec(s1, s2, ratio);
            assert!(ss_eq(slot_s(&dev.term1), after_s(w1, s1)));
            assert!(ss_eq(slot_s(&dev.term2), after_s(w2, s2)));
            assert!(feq(dev.ratio, ratio));
            assert!(unlinked(&dev.term1) && unlinked(&dev.term2));
            reach!();
        }
        }
    };
}
//@ob fn="<GearTrain<E> as Updatable<E>>::update" at=src/devices.rs:153 clause="neither side has a state, any ratio bits: term1 := -; term2 := - (nothing written, Ok, no panic)"
gear_state_case!(c08_gear_neither, false, false);
//@ob fn="<GearTrain<E> as Updatable<E>>::update" at=src/devices.rs:153 prop=C08,C03 also=rel_check clause="only side 1 has a state, any ratio r: term1 := - (unchanged); term2 := s1 * r @t1"
gear_state_case!(c08_gear_only1, true, false);
//@ob fn="<GearTrain<E> as Updatable<E>>::update" at=src/devices.rs:153 prop=C08,C03 also_thorough=rel_check clause="only side 2 has a state, any ratio r: term1 := s2 / r @t2; term2 := - (unchanged)"
gear_state_case!(c08_gear_only2, false, true);
//@ob fn="<GearTrain<E> as Updatable<E>>::update" at=src/devices.rs:153 prop=C08,C03 also_thorough=rel_check clause="both present, any ratio r (all f32 bit patterns), with D = r*r + 1.0 in f32 and X = s1 + s2 * r: term1 := X / D @max(t1,t2); term2 := (X * r) / D @max(t1,t2)"
gear_state_case!(c08_gear_both, true, true, #[kani::solver(kissat)]);

//@ob fn="<GearTrain<E> as Updatable<E>>::update" at=src/devices.rs:153 prop=C08,C09 clause="ratio -2.5, each terminal connected to an external terminal, all 16 have/lack subsets: own slots become the gear-train trees of the terminal READS (gK = (own + partner)/2 @max | the one present | none); partner slots unchanged"
stubbed! {
fn c08_gear_reads_connected_terminals() {
    // concrete ratio: this harness is about WHICH states are consumed; the ratio is arbitrary in c08_gear_{neither,only1,only2,both}
    let ratio: f32 = -2.5;
    let mut dev = GearTrain::<Er>::with_ratio_raw(ratio);
    let ext1 = Terminal::<Er>::new();
    let ext2 = Terminal::<Er>::new();
    connect(dev.get_terminal_1(), &ext1);
    connect(dev.get_terminal_2(), &ext2);
    let s1: SSlot = kani::any(); let s2: SSlot = kani::any();
    let e1: SSlot = kani::any(); let e2: SSlot = kani::any();
    put(&dev.term1, s1, None); put(&dev.term2, s2, None);
    put(&ext1, e1, None); put(&ext2, e2, None);
    let r = dev.update();
    assert!(r.is_ok());
    let (w1, w2) = gear_state_spec(term_read_s(s1, e1), term_read_s(s2, e2), ratio);
    assert!(ss_eq(slot_s(&dev.term1), after_s(w1, s1)));
    assert!(ss_eq(slot_s(&dev.term2), after_s(w2, s2)));
    assert!(ss_eq(slot_s(&ext1), e1) && ss_eq(slot_s(&ext2), e2));
    reach!();
}
}

// ---- constructors
/// (-1)^(gears-1), by counting meshes.
fn mesh_sign_negative(gears: usize) -> bool {
    let mut neg = false;
    let mut i = 1;
    while i < gears { neg = !neg; i += 1; }
    neg
}
// The exact f32 value of the ratio for ALL f32 tooth counts is not a Kani obligation: cvc5 aborts on the
// Option-carrying Terminal fields of the constructed GearTrain (CBMC "map::at" in the SMT2 back end) and SAT does not
// prove the equality of two f32 dividers (CaDiCaL 10 min, Kissat 15 min, unfinished).  DESIGN 5/C08 assigns that clause
// to Verus (V/x).  Kani proves (a) the sign rule on the whole f32 domain and (b) the exact value for integer tooth
// counts 1..=255 (bounded stand-in).
macro_rules! gear_new_sign_harness {
    ($name:ident, $n:expr) => {
        #[kani::proof]
        #[kani::unwind(8)]
        fn $name() {
            let teeth: [f32; $n] = kani::any();
            let (first, last) = (teeth[0], teeth[$n - 1]);
            // inputs for which first/last is NaN have no sign to speak of
            kani::assume(!first.is_nan() && !last.is_nan());
            kani::assume(!(first == 0.0 && last == 0.0) && !(first.is_infinite() && last.is_infinite()));
            let dev = GearTrain::<Er>::new(teeth);
            assert!(!dev.ratio.is_nan());
            let want_negative = first.is_sign_negative() ^ last.is_sign_negative() ^ mesh_sign_negative($n);
            assert!(dev.ratio.is_sign_negative() == want_negative);
            assert!(slot_s(&dev.term1).is_none() && slot_s(&dev.term2).is_none());
            assert!(slot_c(&dev.term1).is_none() && slot_c(&dev.term2).is_none());
            assert!(unlinked(&dev.term1) && unlinked(&dev.term2));
            reach!();
        }
    };
}
macro_rules! gear_new_value_harness {
    ($name:ident, $n:expr) => {
        #[kani::proof]
        #[kani::solver(kissat)]
        #[kani::unwind(8)]
        fn $name() {
            let mut teeth: [f32; $n] = kani::any();
            let x: u8 = kani::any(); let y: u8 = kani::any();
            kani::assume(x >= 1 && y >= 1);
            teeth[0] = x as f32; teeth[$n - 1] = y as f32;
            let dev = GearTrain::<Er>::new(teeth);
            let q = (x as f32) / (y as f32);
            let want = if mesh_sign_negative($n) { -q } else { q };
            assert!(feq(dev.ratio, want));
            reach!();
        }
    };
}
//@ob fn="GearTrain::new" at=src/devices.rs:136 clause="2 gears, all f32 tooth counts whose quotient is not NaN: ratio is not NaN and sign(ratio) = sign(first) xor sign(last) xor 1, i.e. sign of first/last times (-1)^(gears-1); terminals fresh"
gear_new_sign_harness!(c08_gear_new_2_sign, 2);
//@ob fn="GearTrain::new" at=src/devices.rs:136 clause="3 gears, all f32 tooth counts whose quotient is not NaN (middle gear any bits): sign(ratio) = sign(first) xor sign(last)"
gear_new_sign_harness!(c08_gear_new_3_sign, 3);
//@ob fn="GearTrain::new" at=src/devices.rs:136 clause="4 gears: sign(ratio) = sign(first) xor sign(last) xor 1"
gear_new_sign_harness!(c08_gear_new_4_sign, 4);
//@ob fn="GearTrain::new" at=src/devices.rs:136 clause="5 gears: sign(ratio) = sign(first) xor sign(last)"
gear_new_sign_harness!(c08_gear_new_5_sign, 5);
//@ob fn="GearTrain::new" at=src/devices.rs:136 clause="6 gears: sign(ratio) = sign(first) xor sign(last) xor 1"
gear_new_sign_harness!(c08_gear_new_6_sign, 6);
//@ob fn="GearTrain::new" at=src/devices.rs:136 bounded="first and last tooth counts integers 1..=255 (middle gears any f32)" clause="2 gears: ratio bit-equal to -(first/last) in f32"
gear_new_value_harness!(c08_gear_new_2_value, 2);
//@ob fn="GearTrain::new" at=src/devices.rs:136 bounded="first and last tooth counts integers 1..=255 (middle gears any f32)" clause="3 gears: ratio bit-equal to first/last in f32, middle gear irrelevant"
gear_new_value_harness!(c08_gear_new_3_value, 3);
//@ob fn="GearTrain::new" at=src/devices.rs:136 tier=thorough bounded="first and last tooth counts integers 1..=255 (middle gears any f32)" clause="4 gears: ratio bit-equal to -(first/last)"
gear_new_value_harness!(c08_gear_new_4_value, 4);
//@ob fn="GearTrain::new" at=src/devices.rs:136 tier=thorough bounded="first and last tooth counts integers 1..=255 (middle gears any f32)" clause="5 gears: ratio bit-equal to first/last"
gear_new_value_harness!(c08_gear_new_5_value, 5);
//@ob fn="GearTrain::new" at=src/devices.rs:136 tier=thorough bounded="first and last tooth counts integers 1..=255 (middle gears any f32)" clause="6 gears: ratio bit-equal to -(first/last)"
gear_new_value_harness!(c08_gear_new_6_value, 6);
//@ob fn="GearTrain::new" at=src/devices.rs:136 clause="0 tooth counts: always panics"
#[kani::proof]
#[kani::should_panic]
fn c08_gear_new_0_panics() {
    let teeth: [f32; 0] = [];
    let _dev = GearTrain::<Er>::new(teeth);
    kani::cover!(true, "unreach: returned normally");
}
//@ob fn="GearTrain::new" at=src/devices.rs:136 clause="1 tooth count: always panics"
#[kani::proof]
#[kani::should_panic]
fn c08_gear_new_1_panics() {
    let teeth: [f32; 1] = kani::any();
    let _dev = GearTrain::<Er>::new(teeth);
    kani::cover!(true, "unreach: returned normally");
}
//@ob fn="GearTrain::with_ratio" at=src/devices.rs:131 clause="dimensionless quantity: ratio field is bit-equal to the quantity's value, terminals fresh (no data, unlinked)"
#[kani::proof]
fn c08_gear_with_ratio_dimensionless() {
    let v: f32 = kani::any();
    let dev = GearTrain::<Er>::with_ratio(Quantity::new(v, DIMENSIONLESS));
    assert!(feq(dev.ratio, v));
    assert!(slot_s(&dev.term1).is_none() && slot_s(&dev.term2).is_none());
    assert!(slot_c(&dev.term1).is_none() && slot_c(&dev.term2).is_none());
    assert!(unlinked(&dev.term1) && unlinked(&dev.term2));
    reach!();
}
//@ob fn="GearTrain::with_ratio" at=src/devices.rs:131 clause="unit checking on (dev config): a quantity whose unit is not dimensionless always panics"
#[kani::proof]
#[kani::should_panic]
fn c08_gear_with_ratio_wrong_unit_panics() {
    let q: Quantity = kani::any();
    kani::assume(!q.unit.const_eq(&DIMENSIONLESS));
    let _dev = GearTrain::<Er>::with_ratio(q);
    kani::cover!(true, "unreach: returned normally");
}

// ======================================================================================== Axle
/// Spec (statement: "all equal", mean of the terminals that have a state, newest time).  The fold order and
/// the start value `State::default()` are part of the tree: ((default + s_a) + s_b) + ... over the present
/// terminals in terminal order, divided by their number converted to f32.
fn axle_state_spec<const N: usize>(g: &[SSlot; N]) -> SSlot {
    let mut sum = State::default();
    let mut newest: Option<Time> = None;
    let mut count: u32 = 0;
    let mut i = 0;
    while i < N {
        if let Some(d) = g[i] {
            sum = sadd(sum, d.value);
            newest = Some(match newest { None => d.time, Some(t) => tmax(t, d.time) });
            count += 1;
        }
        i += 1;
    }
    match newest {
        None => None,
        Some(t) => Some(Datum::new(t, sdiv(sum, count as f32))),
    }
}
macro_rules! axle_state_harness {
    ($name:ident, $n:expr, $unw:literal) => {
        stubbed! {
        #[kani::unwind($unw)]
        fn $name() {
            const N: usize = $n;
            let mut dev = Axle::<N, Er>::new();
            let mut s: [SSlot; N] = [None; N];
            let mut c: [CSlot; N] = [None; N];
            let mut i = 0;
            while i < N {
                s[i] = kani::any(); c[i] = kani::any();
                put(&dev.inputs[i], s[i], c[i]);
                i += 1;
            }
            let r = dev.update();
            assert!(r.is_ok());
            let w = axle_state_spec(&s);
            let mut any_present = false;
            let mut i = 0;
            while i < N { if s[i].is_some() { any_present = true; } i += 1; }
            assert!(w.is_some() == any_present);
            let mut i = 0;
            while i < N {
                assert!(ss_eq(slot_s(&dev.inputs[i]), after_s(w, s[i])));
                assert!(unlinked(&dev.inputs[i]));
                i += 1;
            }
            reach!();
        }
        }
    };
}
//@ob fn="<Axle<N,E> as Updatable<E>>::update" at=src/devices.rs:276 tier=thorough instance="axle size 0" clause="N=0: update returns Ok, no panic (thorough tier only: CBMC needs about 3 CPU-minutes of symbolic execution for the loops over a zero-length array)"
axle_state_harness!(c08_axle_0, 0, 2);
//@ob fn="<Axle<N,E> as Updatable<E>>::update" at=src/devices.rs:276 prop=C08,C03 instance="axle size 1" clause="N=1, both subsets: state present: in0 := (default + s0) / 1f32 @t0; absent: -"
axle_state_harness!(c08_axle_1, 1, 3);
//@ob fn="<Axle<N,E> as Updatable<E>>::update" at=src/devices.rs:276 prop=C08,C03 instance="axle size 2" clause="N=2, all 4 subsets P of terminals with a state: P empty: nothing written; else EVERY terminal (with or without data) := (fold_{i in P, terminal order} (acc + s_i), acc0 = State::default()) / (|P| as f32) @max_{i in P} t_i"
axle_state_harness!(c08_axle_2, 2, 4);
//@ob fn="<Axle<N,E> as Updatable<E>>::update" at=src/devices.rs:276 prop=C08,C03 instance="axle size 3" clause="N=3, all 8 subsets P: P empty: nothing written; else every terminal := (((default + s_a) + s_b) + s_c restricted to P in terminal order) / (|P| as f32) @max over P"
axle_state_harness!(c08_axle_3, 3, 5);
//@ob fn="<Axle<N,E> as Updatable<E>>::update" at=src/devices.rs:276 prop=C08,C03 tier=thorough instance="axle size 4" clause="N=4, all 16 subsets P: same fold tree / (|P| as f32) @max over P written to every terminal; P empty: nothing"
axle_state_harness!(c08_axle_4, 4, 6);
//@ob fn="<Axle<N,E> as Updatable<E>>::update" at=src/devices.rs:276 prop=C08,C03 tier=thorough instance="axle size 5" clause="N=5, all 32 subsets P: same fold tree / (|P| as f32) @max over P written to every terminal; P empty: nothing"
axle_state_harness!(c08_axle_5, 5, 7);
//@ob fn="<Axle<N,E> as Updatable<E>>::update" at=src/devices.rs:276 prop=C08,C03 tier=thorough instance="axle size 6" clause="N=6, all 64 subsets P: same fold tree / (|P| as f32) @max over P written to every terminal; P empty: nothing"
axle_state_harness!(c08_axle_6, 6, 8);

//@ob fn="<Axle<N,E> as Updatable<E>>::update" at=src/devices.rs:276 prop=C08,C09 instance="axle size 2" clause="N=2, each terminal connected to an external terminal, all 16 subsets: every own slot := axle tree of the terminal READS (gK = (own + partner)/2 @max | the one present | none); partner slots unchanged"
stubbed! {
#[kani::unwind(4)]
fn c08_axle_2_reads_connected_terminals() {
    let mut dev = Axle::<2, Er>::new();
    let ext0 = Terminal::<Er>::new();
    let ext1 = Terminal::<Er>::new();
    connect(dev.get_terminal(0), &ext0);
    connect(dev.get_terminal(1), &ext1);
    let s0: SSlot = kani::any(); let s1: SSlot = kani::any();
    let e0: SSlot = kani::any(); let e1: SSlot = kani::any();
    put(&dev.inputs[0], s0, None); put(&dev.inputs[1], s1, None);
    put(&ext0, e0, None); put(&ext1, e1, None);
    let r = dev.update();
    assert!(r.is_ok());
    let w = axle_state_spec(&[term_read_s(s0, e0), term_read_s(s1, e1)]);
    assert!(ss_eq(slot_s(&dev.inputs[0]), after_s(w, s0)));
    assert!(ss_eq(slot_s(&dev.inputs[1]), after_s(w, s1)));
    assert!(ss_eq(slot_s(&ext0), e0) && ss_eq(slot_s(&ext1), e1));
    reach!();
}
}

// ======================================================================================== Differential
/// Spec (statement: "side1 + side2 = sum"; "for a differential with a distrusted branch: that branch recomputed
/// from the other two"; "does nothing until every branch it trusts has data").  Returns what is written to
/// (side1, side2, sum).  mode: 1 = distrust side 1, 2 = distrust side 2, 3 = distrust sum, 0 = equal trust.
fn differential_spec(mode: u8, g1: SSlot, g2: SSlot, gs: SSlot) -> (SSlot, SSlot, SSlot) {
    match mode {
        1 => match (gs, g2) {
            (Some(ds), Some(d2)) => (Some(Datum::new(tmax(ds.time, d2.time), ssub(ds.value, d2.value))), None, None),
            _ => (None, None, None),
        },
        2 => match (gs, g1) {
            (Some(ds), Some(d1)) => (None, Some(Datum::new(tmax(ds.time, d1.time), ssub(ds.value, d1.value))), None),
            _ => (None, None, None),
        },
        3 => match (g1, g2) {
            (Some(d1), Some(d2)) => (None, None, Some(Datum::new(tmax(d1.time, d2.time), sadd(d1.value, d2.value)))),
            _ => (None, None, None),
        },
        _ => match (g1, g2, gs) {
            (Some(d1), Some(d2), Some(ds)) => {
                let t = tmax(tmax(d1.time, d2.time), ds.time);
                let (s1, s2, sm) = (d1.value, d2.value, ds.value);
                let new_sum = sdiv(sadd(sadd(s1, s2), smul(sm, 2.0)), 3.0);
                let new_1 = sdiv(sadd(ssub(smul(s1, 2.0), s2), sm), 3.0);
                let new_2 = sdiv(sadd(sadd(sneg(s1), smul(s2, 2.0)), sm), 3.0);
                (Some(Datum::new(t, new_1)), Some(Datum::new(t, new_2)), Some(Datum::new(t, new_sum)))
            }
            _ => (None, None, None),
        },
    }
}
macro_rules! differential_case {
    ($name:ident, $mode:expr, $variant:expr, $ready:expr) => {
        stubbed! {
        fn $name() {
            let mut dev = Differential::<Er>::with_distrust($variant);
            let s1: SSlot = kani::any(); let s2: SSlot = kani::any(); let sm: SSlot = kani::any();
            let c1: CSlot = kani::any(); let c2: CSlot = kani::any(); let cm: CSlot = kani::any();
            let trusted_all_present = match $mode {
                1 => sm.is_some() && s2.is_some(),
                2 => sm.is_some() && s1.is_some(),
                3 => s1.is_some() && s2.is_some(),
                _ => s1.is_some() && s2.is_some() && sm.is_some(),
            };
            kani::assume(trusted_all_present == $ready);
            put(&dev.side1, s1, c1); put(&dev.side2, s2, c2); put(&dev.sum, sm, cm);
            let r = dev.update();
            assert!(r.is_ok());
            let (w1, w2, ws) = differential_spec($mode, s1, s2, sm);
            if !$ready { assert!(w1.is_none() && w2.is_none() && ws.is_none()); }
            assert!(ss_eq(slot_s(&dev.side1), after_s(w1, s1)));
            assert!(ss_eq(slot_s(&dev.side2), after_s(w2, s2)));
            assert!(ss_eq(slot_s(&dev.sum), after_s(ws, sm)));
            assert!(unlinked(&dev.side1) && unlinked(&dev.side2) && unlinked(&dev.sum));
            reach!();
        }
        }
    };
}
//@ob fn="<Differential<E> as Updatable<E>>::update" at=src/devices.rs:376 prop=C08,C03 also_thorough=rel_check clause="distrust side 1, sum and side 2 present (side 1 present or not): side1 := ssum - s2 @max(tsum,t2); side2 := -; sum := -"
differential_case!(c08_differential_side1_ready, 1, DifferentialDistrust::Side1, true);
//@ob fn="<Differential<E> as Updatable<E>>::update" at=src/devices.rs:376 clause="distrust side 1, sum or side 2 lacks a state (all such subsets): nothing written to any terminal"
differential_case!(c08_differential_side1_waits, 1, DifferentialDistrust::Side1, false);
//@ob fn="<Differential<E> as Updatable<E>>::update" at=src/devices.rs:387 prop=C08,C03 also_thorough=rel_check clause="distrust side 2, sum and side 1 present: side2 := ssum - s1 @max(tsum,t1); side1 := -; sum := -"
differential_case!(c08_differential_side2_ready, 2, DifferentialDistrust::Side2, true);
//@ob fn="<Differential<E> as Updatable<E>>::update" at=src/devices.rs:387 clause="distrust side 2, sum or side 1 lacks a state: nothing written to any terminal"
differential_case!(c08_differential_side2_waits, 2, DifferentialDistrust::Side2, false);
//@ob fn="<Differential<E> as Updatable<E>>::update" at=src/devices.rs:398 prop=C08,C03 also_thorough=rel_check clause="distrust sum, side 1 and side 2 present: sum := s1 + s2 @max(t1,t2); side1 := -; side2 := -"
differential_case!(c08_differential_sum_ready, 3, DifferentialDistrust::Sum, true);
//@ob fn="<Differential<E> as Updatable<E>>::update" at=src/devices.rs:398 clause="distrust sum, side 1 or side 2 lacks a state: nothing written to any terminal"
differential_case!(c08_differential_sum_waits, 3, DifferentialDistrust::Sum, false);
//@ob fn="<Differential<E> as Updatable<E>>::update" at=src/devices.rs:409 prop=C08,C03 also_thorough=rel_check clause="equal trust, all three present, T = max(t1,t2,tsum): sum := ((s1 + s2) + ssum * 2) / 3 @T; side1 := ((s1 * 2 - s2) + ssum) / 3 @T; side2 := ((-(s1) + s2 * 2) + ssum) / 3 @T"
differential_case!(c08_differential_equal_ready, 0, DifferentialDistrust::Equal, true);
//@ob fn="<Differential<E> as Updatable<E>>::update" at=src/devices.rs:409 clause="equal trust, any of the three lacks a state (all 7 such subsets): nothing written to any terminal"
differential_case!(c08_differential_equal_waits, 0, DifferentialDistrust::Equal, false);
//@ob fn="Differential::new" at=src/devices.rs:342 clause="Differential::new() is the equal-trust differential: all three present => the equal-trust trees"
stubbed! {
fn c08_differential_new_is_equal_trust() {
    let mut dev = Differential::<Er>::new();
    let d1: Datum<State> = kani::any(); let d2: Datum<State> = kani::any(); let dm: Datum<State> = kani::any();
    put(&dev.side1, Some(d1), None); put(&dev.side2, Some(d2), None); put(&dev.sum, Some(dm), None);
    assert!(dev.update().is_ok());
    let (w1, w2, ws) = differential_spec(0, Some(d1), Some(d2), Some(dm));
    assert!(ss_eq(slot_s(&dev.side1), w1) && ss_eq(slot_s(&dev.side2), w2) && ss_eq(slot_s(&dev.sum), ws));
    reach!();
}
}

//@ob fn="<Differential<E> as Updatable<E>>::update" at=src/devices.rs:373 prop=C08,C09 clause="equal trust, each terminal connected to an external terminal, all 64 have/lack subsets: own slots become the equal-trust trees of the terminal READS (gK = (own + partner)/2 @max | the one present | none), nothing written unless all three reads are present; partner slots unchanged"
stubbed! {
fn c08_differential_equal_reads_connected_terminals() {
    let mut dev = Differential::<Er>::with_distrust(DifferentialDistrust::Equal);
    let ext1 = Terminal::<Er>::new();
    let ext2 = Terminal::<Er>::new();
    let extm = Terminal::<Er>::new();
    connect(dev.get_side_1(), &ext1);
    connect(dev.get_side_2(), &ext2);
    connect(dev.get_sum(), &extm);
    let s1: SSlot = kani::any(); let s2: SSlot = kani::any(); let sm: SSlot = kani::any();
    let e1: SSlot = kani::any(); let e2: SSlot = kani::any(); let em: SSlot = kani::any();
    put(&dev.side1, s1, None); put(&dev.side2, s2, None); put(&dev.sum, sm, None);
    put(&ext1, e1, None); put(&ext2, e2, None); put(&extm, em, None);
    let r = dev.update();
    assert!(r.is_ok());
    let (w1, w2, ws) = differential_spec(0, term_read_s(s1, e1), term_read_s(s2, e2), term_read_s(sm, em));
    assert!(ss_eq(slot_s(&dev.side1), after_s(w1, s1)));
    assert!(ss_eq(slot_s(&dev.side2), after_s(w2, s2)));
    assert!(ss_eq(slot_s(&dev.sum), after_s(ws, sm)));
    assert!(ss_eq(slot_s(&ext1), e1) && ss_eq(slot_s(&ext2), e2) && ss_eq(slot_s(&extm), em));
    reach!();
}
}
//@ob fn="<Differential<E> as Updatable<E>>::update" at=src/devices.rs:376 prop=C08,C09 clause="distrust side 1, each terminal connected to an external terminal, all 64 subsets: side1 := gsum - g2 @max of the terminal READS when both reads are present, else nothing; the distrusted branch's own and partner slots are not consulted"
stubbed! {
fn c08_differential_side1_reads_connected_terminals() {
    let mut dev = Differential::<Er>::with_distrust(DifferentialDistrust::Side1);
    let ext1 = Terminal::<Er>::new();
    let ext2 = Terminal::<Er>::new();
    let extm = Terminal::<Er>::new();
    connect(dev.get_side_1(), &ext1);
    connect(dev.get_side_2(), &ext2);
    connect(dev.get_sum(), &extm);
    let s1: SSlot = kani::any(); let s2: SSlot = kani::any(); let sm: SSlot = kani::any();
    let e1: SSlot = kani::any(); let e2: SSlot = kani::any(); let em: SSlot = kani::any();
    put(&dev.side1, s1, None); put(&dev.side2, s2, None); put(&dev.sum, sm, None);
    put(&ext1, e1, None); put(&ext2, e2, None); put(&extm, em, None);
    let r = dev.update();
    assert!(r.is_ok());
    let (w1, w2, ws) = differential_spec(1, None, term_read_s(s2, e2), term_read_s(sm, em));
    assert!(w2.is_none() && ws.is_none());
    assert!(ss_eq(slot_s(&dev.side1), after_s(w1, s1)));
    assert!(ss_eq(slot_s(&dev.side2), s2));
    assert!(ss_eq(slot_s(&dev.sum), sm));
    assert!(ss_eq(slot_s(&ext1), e1) && ss_eq(slot_s(&ext2), e2) && ss_eq(slot_s(&extm), em));
    reach!();
}
}
