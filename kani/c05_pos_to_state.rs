//@host src/streams/converters.rs::position_to_state
//@config dev
// C05 one-step contracts of PositionToState over an ARBITRARY pre-state (Update0 / Update1 are private to the inline
// module `position_to_state`, which hosts this module).  Data invariant = the units of the stored quantities (what
// `State::new` and the quantity additions assert); it is proved inductive for inputs of unit MILLIMETER, the unit
// `update` itself asserts.  Values of the integration / differentiation formulas are C10's business (Verus);
// here: error handling, reset-equivalence, ignored absent events, purity, and the Some/None structure.
#![allow(unused_imports, dead_code)]
use super::*;
use crate::verif_c05_bits::*;
use crate::verif_support::*;
use crate::*;

type St = PositionToState<Scripted<Quantity>, Er>;
const MAX_DEPTH: u8 = 3;

fn copy_u1(a: &Update1) -> Update1 { Update1 { vel: a.vel, update_2: a.update_2 } }
fn u1_eq(a: &Update1, b: &Update1) -> bool { a.vel.beq(&b.vel) && a.update_2.beq(&b.update_2) }
fn any_u1() -> Update1 { Update1 { vel: kani::any(), update_2: kani::any() } }
fn u1_extra_depth(a: &Update1) -> u8 { if a.update_2.is_some() { 1 } else { 0 } }
fn u1_units_ok(a: &Update1) -> bool {
    a.vel.unit == MILLIMETER_PER_SECOND && match &a.update_2 { None => true, Some(q) => q.unit == MILLIMETER_PER_SECOND_SQUARED }
}
/// The State the stored quantities denote, when all three exist.
fn full_state(u0: &Update0, u1: &Update1) -> Option<State> {
    match u1.update_2 { Some(q) => Some(State::new_raw(u0.pos.value, u1.vel.value, q.value)), None => None }
}

fn copy_u0(a: &Update0) -> Update0 {
    Update0 {
        last_update_time: a.last_update_time,
        pos: a.pos,
        update_1: match &a.update_1 { None => None, Some(x) => Some(copy_u1(x)) },
    }
}
fn u0_eq(a: &Update0, b: &Update0) -> bool {
    a.last_update_time.beq(&b.last_update_time)
        && a.pos.beq(&b.pos)
        && match (&a.update_1, &b.update_1) {
            (None, None) => true,
            (Some(x), Some(y)) => u1_eq(x, y),
            _ => false,
        }
}
fn up_eq(a: &Option<Update0>, b: &Option<Update0>) -> bool {
    match (a, b) {
        (None, None) => true,
        (Some(x), Some(y)) => u0_eq(x, y),
        _ => false,
    }
}
fn copy_up(a: &Option<Update0>) -> Option<Update0> {
    match a { None => None, Some(x) => Some(copy_u0(x)) }
}
fn any_up() -> Option<Update0> {
    if kani::any() {
        Some(Update0 {
            last_update_time: kani::any(),
            pos: kani::any(),
            update_1: if kani::any() { Some(any_u1()) } else { None },
        })
    } else {
        None
    }
}
/// Number of samples the state remembers, saturating at MAX_DEPTH (= enough for a full State).
fn depth(u: &Option<Update0>) -> u8 {
    match u {
        None => 0,
        Some(u0) => match &u0.update_1 { None => 1, Some(u1) => 2 + u1_extra_depth(u1) },
    }
}
/// Data invariant: stored quantities carry the units of their roles.
fn inv(s: &St) -> bool {
    match &s.update {
        None => true,
        Some(u0) => u0.pos.unit == MILLIMETER && match &u0.update_1 { None => true, Some(u1) => u1_units_ok(u1) },
    }
}
/// Arbitrary state: every private field symbolic.
fn any_st(input: Reference<Scripted<Quantity>>) -> St {
    PositionToState { pos: input, update: any_up(), phantom_e: PhantomData }
}
/// Preconditions of one step: the input carries the unit `update` asserts (else it panics by design, C01) and
/// A7 (time difference to the stored sample does not overflow).
fn pre_ok(s: &St, ev: &Output<Quantity, Er>) -> bool {
    match ev {
        Ok(Some(d)) => d.value.unit == MILLIMETER && match &s.update { Some(u0) => sub_ok(d.time, u0.last_update_time), None => true },
        _ => true,
    }
}
/// What get() must return for a given state: a pure function of the fields.
fn spec_get(u: &Option<Update0>) -> Output<State, Er> {
    match u {
        Some(u0) => match &u0.update_1 {
            Some(u1) => match full_state(u0, u1) {
                Some(st) => Ok(Some(Datum::new(u0.last_update_time, st))),
                None => Ok(None),
            },
            None => Ok(None),
        },
        None => Ok(None),
    }
}

//@ob fn="PositionToState::new" at=src/streams/converters.rs:346 clause="new() remembers nothing (update None); get() of it is Ok(None); invariant holds"
#[kani::proof]
fn c05_p2s_new() {
    let mut inp = Scripted::<Quantity>::new(any_output());
    let s = PositionToState::<Scripted<Quantity>, Er>::new(rf(&mut inp));
    assert!(s.update.is_none() && inv(&s));
    assert!(s.get().beq(&Ok(None)));
    reach!();
}

//@ob fn="<PositionToState<G,E> as Updatable>::update" at=src/streams/converters.rs:372 clause="unit invariant inductive: inv(s) => inv(update(s, ev)) for every event whose present value has unit MILLIMETER; no unit assertion fires, no panic (A7)"
#[kani::proof]
fn c05_p2s_unit_inv_step() {
    let ev = any_output::<Quantity>();
    let mut inp = Scripted::new(ev);
    let mut s = any_st(rf(&mut inp));
    kani::assume(inv(&s));
    kani::assume(pre_ok(&s, &ev));
    let _ = s.update();
    assert!(inv(&s));
    reach!();
}

//@ob fn="<PositionToState<G,E> as Updatable>::update" at=src/streams/converters.rs:372 clause="freshness from an arbitrary inv-state: update returns Err(e) iff the input returned Err(e); get() afterwards is never an error (the converter does not cache errors), and is Ok(None) after an error event; input read once, never updated (A7, input unit)"
#[kani::proof]
fn c05_p2s_fresh() {
    let ev = any_output::<Quantity>();
    let mut inp = Scripted::new(ev);
    let mut s = any_st(rf(&mut inp));
    kani::assume(inv(&s));
    kani::assume(pre_ok(&s, &ev));
    let r = s.update();
    let g = s.get();
    assert!(nerr_of(&r) == err_of(&ev));
    assert!(err_of(&g).is_none());
    if ev.is_err() {
        assert!(s.update.is_none());
        assert!(g.beq(&Ok(None)));
    }
    assert!(inp.gets.get() == 1 && inp.updates == 0);
    reach!();
}

//@ob fn="<PositionToState<G,E> as Updatable>::update" at=src/streams/converters.rs:421 clause="reset on error: step(s, Err e) == step(new(), Err e): same result, state bit-equal (nothing remembered), get() equal; arbitrary s, every e"
#[kani::proof]
fn c05_p2s_reset_error() {
    let ev: Output<Quantity, Er> = Err(kani::any());
    let mut inp = Scripted::new(ev);
    let mut s = any_st(rf(&mut inp));
    kani::assume(inv(&s));
    let mut fresh = PositionToState::<Scripted<Quantity>, Er>::new(rf(&mut inp));
    let r1 = s.update();
    let r2 = fresh.update();
    assert!(r1.beq(&r2));
    assert!(up_eq(&s.update, &fresh.update));
    assert!(s.get().beq(&fresh.get()));
    reach!();
}

//@ob fn="<PositionToState<G,E> as Updatable>::update" at=src/streams/converters.rs:419 clause="absent ignored: step(s, None) == s, every nested field bit-unchanged, result Ok, get() unchanged; arbitrary inv-state s"
#[kani::proof]
fn c05_p2s_absent_ignored() {
    let mut inp = Scripted::<Quantity>::new(Ok(None));
    let mut s = any_st(rf(&mut inp));
    kani::assume(inv(&s));
    let pre = copy_up(&s.update);
    let g0 = s.get();
    let r = s.update();
    assert!(r.is_ok());
    assert!(up_eq(&s.update, &pre));
    assert!(s.get().beq(&g0));
    reach!();
}

//@ob fn="<PositionToState<G,E> as Updatable>::update" at=src/streams/converters.rs:372 clause="structure of a present sample: remembered depth grows by one up to 3; the sample's time and value are stored bit for bit; get() is present iff depth is 3, stamped with the sample's time (A7, input unit)"
#[kani::proof]
fn c05_p2s_present_structure() {
    let d: Datum<Quantity> = kani::any();
    let mut inp = Scripted::new(Ok(Some(d)));
    let mut s = any_st(rf(&mut inp));
    kani::assume(inv(&s));
    kani::assume(pre_ok(&s, &inp.out));
    let d0 = depth(&s.update);
    let r = s.update();
    assert!(r.is_ok());
    let d1 = depth(&s.update);
    assert!(d1 == if d0 < MAX_DEPTH { d0 + 1 } else { MAX_DEPTH });
    assert!(matches!(&s.update, Some(u0) if u0.last_update_time == d.time && u0.pos.beq(&d.value)));
    let g = s.get();
    assert!((cat_of(&g) == 2) == (d1 == MAX_DEPTH));
    assert!(cat_of(&g) != 0);
    assert!(cat_of(&g) != 2 || time_of(&g) == Some(d.time));
    reach!();
}

//@ob fn="<PositionToState<G,E> as Getter>::get" at=src/streams/converters.rs:355 clause="purity: get() is a function of the fields (present iff depth 3: stored time, State of the three stored quantities bit for bit; else Ok(None)), twice the same, every nested field bit-unchanged, input not touched, no unit assertion fires; arbitrary inv-state"
#[kani::proof]
fn c05_p2s_get_pure() {
    let mut inp = Scripted::<Quantity>::new(any_output());
    let s = any_st(rf(&mut inp));
    kani::assume(inv(&s));
    let pre = copy_up(&s.update);
    let g1 = s.get();
    let g2 = s.get();
    assert!(g1.beq(&g2));
    assert!(g1.beq(&spec_get(&pre)));
    assert!(up_eq(&s.update, &pre));
    assert!(inp.gets.get() == 0 && inp.updates == 0);
    reach!();
}

// ------------------------------------------------------------------------------------------------
// C10: "the to-state converters panic on wrongly dimensioned input when checking is enabled" (this module runs in the
// dev configuration: dim_check_debug + debug assertions).  The Verus units state the unit as update's precondition;
// the panic itself is this obligation.
// ------------------------------------------------------------------------------------------------

//@ob fn="<PositionToState<G,E> as Updatable>::update" at=src/streams/converters.rs:372 prop=C10 clause="a present sample whose unit is not MILLIMETER makes update() panic, from EVERY state (any remembered depth, any stored units and times) and for every such unit and value: no path returns"
#[kani::proof]
#[kani::should_panic]
fn c10_p2s_wrong_unit_update_panics() {
    // keeps the should_panic verdict defined when nothing panics (see c14_command.rs); constrains nothing
    if kani::any() {
        panic!("sentinel: not part of the obligation");
    }
    let d: Datum<Quantity> = kani::any();
    kani::assume(d.value.unit != MILLIMETER);
    let mut inp = Scripted::new(Ok(Some(d)));
    let mut s = any_st(rf(&mut inp));
    let _ = s.update();
    kani::cover!(true, "unreach: returned normally");
}

//@ob fn="<PositionToState<G,E> as Updatable>::update" at=src/streams/converters.rs:384 prop=C10 clause="how the computed terms are combined (Quantity / replaced by a recording stand-in): from the second sample on the stored velocity is one of the products/quotients the code computed; from the third on so is the acceleration; position and time are the sample's"
#[kani::proof]
#[kani::stub(<Quantity as Mul<Quantity>>::mul, rec_q_mul)]
#[kani::stub(<Quantity as Div<Quantity>>::div, rec_q_div)]
fn c10_p2s_terms_combined() {
    let d: Datum<Quantity> = kani::any();
    let mut inp = Scripted::new(Ok(Some(d)));
    let mut s = any_st(rf(&mut inp));
    kani::assume(inv(&s) && pre_ok(&s, &Ok(Some(d))));
    kani::assume(s.update.is_some());
    let had_vel = match &s.update { Some(u0) => u0.update_1.is_some(), None => false };
    rec_reset();
    let r = s.update();
    assert!(r == Ok(()));
    match &s.update {
        Some(u0) => {
            assert!(u0.last_update_time == d.time && u0.pos.beq(&d.value));
            match &u0.update_1 {
                Some(u1) => {
                    assert!(rec_complete());
                    assert!(rec_any(u1.vel.value));
                    if had_vel {
                        match u1.update_2 { Some(a) => assert!(rec_any(a.value)), None => assert!(false) }
                    } else {
                        assert!(u1.update_2.is_none());
                    }
                }
                None => assert!(false),
            }
        }
        None => assert!(false),
    }
    reach!();
}
