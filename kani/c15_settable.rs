//@host src/lib.rs
//@config dev
// C15: the provided methods of `Settable` against an ARBITRARY implementor and an ARBITRARY SettableData
// pre-state, GetterFromHistory (constructors, set_delta, set_time, get, update) against a scripted History that
// records the queried time, ConstantGetter, TimeGetterFromGetter, `impl TimeGetter for Time`, NoneGetter.
// One-step contracts over arbitrary state => all operation sequences.
#![allow(unused_imports, dead_code)]
use crate::verif_c05_bits::*;
use crate::verif_support::*;
use crate::*;
use core::cell::Cell;

// ================================================================================================ Settable
/// Arbitrary implementor: `impl_set` has a symbolic outcome and records what it was given.  It does not touch
/// the SettableData (an implementor cannot: its fields are private to the crate root).
struct Rec {
    data: SettableData<Tok, Er>,
    outcome: NothingOrError<Er>,
    last_arg: Option<Tok>,
    calls: u32,
}
impl Settable<Tok, Er> for Rec {
    fn get_settable_data_ref(&self) -> &SettableData<Tok, Er> { &self.data }
    fn get_settable_data_mut(&mut self) -> &mut SettableData<Tok, Er> { &mut self.data }
    fn impl_set(&mut self, value: Tok) -> NothingOrError<Er> {
        self.calls = self.calls.wrapping_add(1);
        self.last_arg = Some(value);
        self.outcome
    }
}
impl Updatable<Er> for Rec {
    fn update(&mut self) -> NothingOrError<Er> { self.update_following_data() }
}
fn any_nothing_or_error() -> NothingOrError<Er> {
    if kani::any() { Ok(()) } else { Err(kani::any()) }
}
/// Arbitrary pre-state; `following` is `Some(reference to fol)` or `None`.  The choice is made by the harness
/// (`both_ways`) as a branch, not as a merged value: a `Reference` whose enum variant is symbolic makes CBMC
/// explore the Rc / Arc / RwLock / Mutex arms of every clone, borrow and drop (minutes instead of seconds).
fn any_rec(fol: &mut Scripted<Tok>, following: bool) -> Rec {
    Rec {
        data: SettableData {
            following: if following { Some(rf_dyn(fol)) } else { None },
            last_request: kani::any(),
        },
        outcome: any_nothing_or_error(),
        last_arg: None,
        calls: 0,
    }
}
fn following_addr<S>(d: &SettableData<S, Er>) -> Option<Option<*const ()>> {
    match &d.following { None => None, Some(r) => Some(ref_addr(r)) }
}
/// Run a harness body for both shapes of the pre-state (following a getter / following nothing).
fn both_ways(body: fn(bool)) {
    if kani::any() { body(true) } else { body(false) }
}
fn addr_of_scripted(s: &Scripted<Tok>) -> *const () { s as *const Scripted<Tok> as *const () }

//@ob fn="Settable::set" at=src/lib.rs:255 also=rel_check clause="successful set, arbitrary pre-state: impl_set is called exactly once with exactly v, set returns Ok, the last request becomes Some(v); the followed getter is unchanged and not read"
#[kani::proof]
fn c15_set_ok() {
    both_ways(body_c15_set_ok);
    reach!();
}
fn body_c15_set_ok(following: bool) {
    let mut fol = Scripted::<Tok>::new(any_output());
    let mut s = any_rec(&mut fol, following);
    kani::assume(s.outcome.is_ok());
    let f0 = following_addr(&s.data);
    let v: Tok = kani::any();
    let r = s.set(v);
    assert!(r.is_ok());
    assert!(s.calls == 1 && s.last_arg == Some(v));
    assert!(s.data.last_request == Some(v));
    assert!(s.get_last_request() == Some(v));
    assert!(following_addr(&s.data) == f0);
    assert!(fol.gets.get() == 0);
    kani::cover!(following, "reach-following");
    kani::cover!(!following, "reach-not-following");
}

//@ob fn="Settable::set" at=src/lib.rs:255 clause="failed set, arbitrary pre-state: impl_set is called exactly once with exactly v, set returns impl_set's error, the last request is unchanged bit for bit (whether it was None or Some); the followed getter is unchanged"
#[kani::proof]
fn c15_set_fail() {
    both_ways(body_c15_set_fail);
    reach!();
}
fn body_c15_set_fail(following: bool) {
    let mut fol = Scripted::<Tok>::new(any_output());
    let mut s = any_rec(&mut fol, following);
    let e: Error<Er> = kani::any();
    s.outcome = Err(e);
    let f0 = following_addr(&s.data);
    let l0 = s.data.last_request;
    let v: Tok = kani::any();
    let r = s.set(v);
    assert!(r == Err(e));
    assert!(s.calls == 1 && s.last_arg == Some(v));
    assert!(s.data.last_request.beq(&l0));
    assert!(s.get_last_request().beq(&l0));
    assert!(following_addr(&s.data) == f0);
    kani::cover!(following, "reach-following");
    kani::cover!(!following, "reach-not-following");
}

//@ob fn="Settable::get_last_request" at=src/lib.rs:306 clause="returns the stored last request (None or Some) and changes nothing; no impl_set call"
#[kani::proof]
fn c15_get_last_request() {
    both_ways(body_c15_get_last_request);
    reach!();
}
fn body_c15_get_last_request(following: bool) {
    let mut fol = Scripted::<Tok>::new(any_output());
    let s = any_rec(&mut fol, following);
    let f0 = following_addr(&s.data);
    let l0 = s.data.last_request;
    let a = s.get_last_request();
    let b = s.get_last_request();
    assert!(a.beq(&l0) && b.beq(&l0));
    assert!(s.data.last_request.beq(&l0) && following_addr(&s.data) == f0);
    assert!(s.calls == 0 && fol.gets.get() == 0);
    kani::cover!(following, "reach-following");
    kani::cover!(!following, "reach-not-following");
}

//@ob fn="Settable::follow" at=src/lib.rs:273 also_thorough=rel_check clause="follow(g) from an arbitrary pre-state (already following something or not): the followed getter becomes exactly g; the last request is unchanged; nothing is set, g is not read"
#[kani::proof]
fn c15_follow() {
    both_ways(body_c15_follow);
    reach!();
}
fn body_c15_follow(following: bool) {
    let mut fol = Scripted::<Tok>::new(any_output());
    let mut other = Scripted::<Tok>::new(any_output());
    let mut s = any_rec(&mut fol, following);
    let l0 = s.data.last_request;
    s.follow(rf_dyn(&mut other));
    assert!(following_addr(&s.data) == Some(Some(addr_of_scripted(&other))));
    assert!(s.data.last_request.beq(&l0));
    assert!(s.calls == 0 && other.gets.get() == 0 && fol.gets.get() == 0);
    kani::cover!(following, "reach-following");
    kani::cover!(!following, "reach-not-following");
}

//@ob fn="Settable::stop_following" at=src/lib.rs:278 also_thorough=rel_check clause="stop_following from an arbitrary pre-state: nothing is followed afterwards; the last request is unchanged; nothing is set"
#[kani::proof]
fn c15_stop_following() {
    both_ways(body_c15_stop_following);
    reach!();
}
fn body_c15_stop_following(following: bool) {
    let mut fol = Scripted::<Tok>::new(any_output());
    let mut s = any_rec(&mut fol, following);
    let l0 = s.data.last_request;
    s.stop_following();
    assert!(s.data.following.is_none());
    assert!(s.data.last_request.beq(&l0));
    assert!(s.calls == 0 && fol.gets.get() == 0);
    kani::cover!(following, "reach-following");
    kani::cover!(!following, "reach-not-following");
}

//@ob fn="Settable::update_following_data" at=src/lib.rs:287 clause="not following: returns Ok, impl_set is not called, state unchanged"
#[kani::proof]
fn c15_ufd_not_following() {
    let mut fol = Scripted::<Tok>::new(any_output());
    let mut s = any_rec(&mut fol, false);
    let l0 = s.data.last_request;
    let r = s.update_following_data();
    assert!(r.is_ok());
    assert!(s.calls == 0 && s.data.following.is_none() && s.data.last_request.beq(&l0));
    assert!(fol.gets.get() == 0);
    reach!();
}

//@ob fn="Settable::update_following_data" at=src/lib.rs:297 also=rel_check clause="following, getter present Some(d): impl_set is called exactly once with exactly d.value (the timestamp is irrelevant); its result is returned; the last request becomes Some(d.value) iff it succeeded and is otherwise unchanged; still following the same getter, which was read once and not updated"
#[kani::proof]
fn c15_ufd_present() {
    let d: Datum<Tok> = kani::any();
    let mut fol = Scripted::<Tok>::new(Ok(Some(d)));
    let mut s = any_rec(&mut fol, true);
    let l0 = s.data.last_request;
    let r = s.update_following_data();
    assert!(s.calls == 1 && s.last_arg == Some(d.value));
    assert!(r == s.outcome);
    if s.outcome.is_ok() {
        assert!(s.data.last_request == Some(d.value));
    } else {
        assert!(s.data.last_request.beq(&l0));
    }
    assert!(following_addr(&s.data) == Some(Some(addr_of_scripted(&fol))));
    assert!(fol.gets.get() == 1 && fol.updates == 0);
    reach!();
}

//@ob fn="Settable::update_following_data" at=src/lib.rs:294 clause="following, getter absent: nothing is forwarded (impl_set not called), returns Ok, last request and followed getter unchanged"
#[kani::proof]
fn c15_ufd_absent() {
    let mut fol = Scripted::<Tok>::new(Ok(None));
    let mut s = any_rec(&mut fol, true);
    let l0 = s.data.last_request;
    let r = s.update_following_data();
    assert!(r.is_ok());
    assert!(s.calls == 0 && s.data.last_request.beq(&l0));
    assert!(following_addr(&s.data) == Some(Some(addr_of_scripted(&fol))));
    assert!(fol.gets.get() == 1);
    reach!();
}

//@ob fn="Settable::update_following_data" at=src/lib.rs:292 clause="following, getter Err(e): returns Err(e), nothing is forwarded, last request and followed getter unchanged"
#[kani::proof]
fn c15_ufd_error() {
    let e: Error<Er> = kani::any();
    let mut fol = Scripted::<Tok>::new(Err(e));
    let mut s = any_rec(&mut fol, true);
    let l0 = s.data.last_request;
    let r = s.update_following_data();
    assert!(r == Err(e));
    assert!(s.calls == 0 && s.data.last_request.beq(&l0));
    assert!(following_addr(&s.data) == Some(Some(addr_of_scripted(&fol))));
    reach!();
}

//@ob fn="Settable::stop_following" at=src/lib.rs:278 clause="following stops after stop_following: follow(g); stop_following(); update_following_data() forwards nothing and does not read g, whatever g would return"
#[kani::proof]
fn c15_ufd_after_stop() {
    both_ways(body_c15_ufd_after_stop);
    reach!();
}
fn body_c15_ufd_after_stop(following: bool) {
    let mut fol = Scripted::<Tok>::new(any_output());
    let mut g = Scripted::<Tok>::new(any_output());
    let mut s = any_rec(&mut fol, following);
    let l0 = s.data.last_request;
    s.follow(rf_dyn(&mut g));
    s.stop_following();
    let r = s.update_following_data();
    assert!(r.is_ok());
    assert!(s.calls == 0 && g.gets.get() == 0 && fol.gets.get() == 0);
    assert!(s.data.last_request.beq(&l0));
    kani::cover!(following, "reach-following");
    kani::cover!(!following, "reach-not-following");
}

//@ob fn="Settable::follow" at=src/lib.rs:273 clause="re-following: follow(g1); follow(g2); update_following_data() reads only g2 and forwards exactly g2's present value"
#[kani::proof]
fn c15_refollow() {
    both_ways(body_c15_refollow);
    reach!();
}
fn body_c15_refollow(following: bool) {
    let mut fol = Scripted::<Tok>::new(any_output());
    let mut g1 = Scripted::<Tok>::new(any_output());
    let d: Datum<Tok> = kani::any();
    let mut g2 = Scripted::<Tok>::new(Ok(Some(d)));
    let mut s = any_rec(&mut fol, following);
    s.follow(rf_dyn(&mut g1));
    s.follow(rf_dyn(&mut g2));
    let r = s.update_following_data();
    assert!(r == s.outcome);
    assert!(s.calls == 1 && s.last_arg == Some(d.value));
    assert!(g1.gets.get() == 0 && g2.gets.get() == 1 && fol.gets.get() == 0);
    kani::cover!(following, "reach-following");
    kani::cover!(!following, "reach-not-following");
}

// ======================================================================================= GetterFromHistory
/// Scripted History: returns a fixed symbolic Option<Datum<Tok>> and records every queried time; its update has
/// a symbolic result and stamps its position in the shared call sequence.
struct Hist<'s> {
    out: Option<Datum<Tok>>,
    queried: Cell<Option<Time>>,
    gets: Cell<u32>,
    update_result: NothingOrError<Er>,
    updates: u32,
    seq: &'s Cell<u32>,
    updated_at: u32,
}
impl<'s> Hist<'s> {
    fn new(out: Option<Datum<Tok>>, update_result: NothingOrError<Er>, seq: &'s Cell<u32>) -> Self {
        Hist { out: out, queried: Cell::new(None), gets: Cell::new(0), update_result: update_result, updates: 0, seq: seq, updated_at: 0 }
    }
}
impl History<Tok, Er> for Hist<'_> {
    fn get(&self, time: Time) -> Option<Datum<Tok>> {
        self.gets.set(self.gets.get().wrapping_add(1));
        self.queried.set(Some(time));
        self.out
    }
}
impl Updatable<Er> for Hist<'_> {
    fn update(&mut self) -> NothingOrError<Er> {
        self.updates = self.updates.wrapping_add(1);
        self.seq.set(self.seq.get() + 1);
        self.updated_at = self.seq.get();
        self.update_result
    }
}
/// Scripted clock with a symbolic update result, stamping its position in the shared call sequence.
struct Clk<'s> {
    out: TimeOutput<Er>,
    gets: Cell<u32>,
    update_result: NothingOrError<Er>,
    updates: u32,
    seq: &'s Cell<u32>,
    updated_at: u32,
}
impl<'s> Clk<'s> {
    fn new(out: TimeOutput<Er>, update_result: NothingOrError<Er>, seq: &'s Cell<u32>) -> Self {
        Clk { out: out, gets: Cell::new(0), update_result: update_result, updates: 0, seq: seq, updated_at: 0 }
    }
}
impl TimeGetter<Er> for Clk<'_> {
    fn get(&self) -> TimeOutput<Er> {
        self.gets.set(self.gets.get().wrapping_add(1));
        self.out
    }
}
impl Updatable<Er> for Clk<'_> {
    fn update(&mut self) -> NothingOrError<Er> {
        self.updates = self.updates.wrapping_add(1);
        self.seq.set(self.seq.get() + 1);
        self.updated_at = self.seq.get();
        self.update_result
    }
}
/// The contract of `get` for a clock reading `now` and an offset `delta`, checked after the call: the history
/// was queried exactly once, at now + delta; the result is the history's value restamped with `now`.
fn check_get(g: &Output<Tok, Er>, now: Time, expect_query: Time, hist_out: &Option<Datum<Tok>>, queried: Option<Time>, hist_gets: u32) {
    assert!(hist_gets == 1);
    assert!(queried == Some(expect_query));
    match hist_out {
        None => assert!(g.beq(&Ok(None))),
        Some(d) => assert!(g.beq(&Ok(Some(Datum::new(now, d.value))))),
    }
}

//@ob fn="<GetterFromHistory<G,TG,E> as Getter>::get" at=src/lib.rs:417 clause="arbitrary offset (private field symbolic), clock Ok(now), now + delta not overflowing (A7): the history is queried exactly once at exactly now + delta; history None => Ok(None); history Some(d) => Ok(Some) carrying exactly d.value restamped with now (d.time is irrelevant); the offset is unchanged; clock read once"
#[kani::proof]
fn c15_gfh_get() {
    let seq = Cell::new(0);
    let now: Time = kani::any();
    let delta: Time = kani::any();
    kani::assume(add_ok(now, delta));
    let ho: Option<Datum<Tok>> = kani::any();
    let mut h = Hist::new(ho, Ok(()), &seq);
    let mut c = Clk::new(Ok(now), Ok(()), &seq);
    let g;
    {
        let s = GetterFromHistory { history: &mut h, time_getter: rf(&mut c), time_delta: delta };
        g = s.get();
        assert!(s.time_delta == delta);
    }
    check_get(&g, now, Time(now.0 + delta.0), &ho, h.queried.get(), h.gets.get());
    assert!(c.gets.get() == 1 && h.updates == 0 && c.updates == 0);
    reach!();
}

//@ob fn="<GetterFromHistory<G,TG,E> as Getter>::get" at=src/lib.rs:418 clause="clock Err(e): get returns Err(e) and the history is not queried; offset unchanged"
#[kani::proof]
fn c15_gfh_get_clock_error() {
    let seq = Cell::new(0);
    let e: Error<Er> = kani::any();
    let delta: Time = kani::any();
    let mut h = Hist::new(kani::any(), Ok(()), &seq);
    let mut c = Clk::new(Err(e), Ok(()), &seq);
    let g;
    {
        let s = GetterFromHistory { history: &mut h, time_getter: rf(&mut c), time_delta: delta };
        g = s.get();
        assert!(s.time_delta == delta);
    }
    assert!(g.beq(&Err(e)));
    assert!(h.gets.get() == 0 && h.queried.get().is_none());
    reach!();
}

//@ob fn="<GetterFromHistory<G,TG,E> as Updatable>::update" at=src/lib.rs:410 also_thorough=rel_check clause="update updates the history first, then the clock, each exactly once; a history error is returned and the clock is then not updated; otherwise a clock error is returned; otherwise Ok; the offset is unchanged and nothing is queried"
#[kani::proof]
fn c15_gfh_update() {
    let seq = Cell::new(0);
    let hr = any_nothing_or_error();
    let cr = any_nothing_or_error();
    let delta: Time = kani::any();
    let mut h = Hist::new(kani::any(), hr, &seq);
    let mut c = Clk::new(any_time_output(), cr, &seq);
    let r;
    {
        let mut s = GetterFromHistory { history: &mut h, time_getter: rf(&mut c), time_delta: delta };
        r = s.update();
        assert!(s.time_delta == delta);
    }
    assert!(h.updates == 1 && h.updated_at == 1);
    match (hr, cr) {
        (Err(e), _) => assert!(r == Err(e) && c.updates == 0),
        (Ok(()), Err(e)) => assert!(r == Err(e) && c.updates == 1 && c.updated_at == 2),
        (Ok(()), Ok(())) => assert!(r.is_ok() && c.updates == 1 && c.updated_at == 2),
    }
    assert!(h.gets.get() == 0 && c.gets.get() == 0);
    reach!();
}

//@ob fn="GetterFromHistory::new_no_delta" at=src/lib.rs:351 clause="offset is 0: at every clock reading now the history is queried at exactly now and the value comes back restamped with now; the constructor reads neither clock nor history"
#[kani::proof]
fn c15_gfh_new_no_delta() {
    let seq = Cell::new(0);
    let now: Time = kani::any();
    let ho: Option<Datum<Tok>> = kani::any();
    let mut h = Hist::new(ho, Ok(()), &seq);
    let mut c = Clk::new(any_time_output(), Ok(()), &seq);
    let g;
    {
        let s = GetterFromHistory::new_no_delta(&mut h, rf(&mut c));
        assert!(s.time_delta == Time(0));
        assert!(c.gets.get() == 0);
        c.out = Ok(now);
        g = s.get();
    }
    check_get(&g, now, now, &ho, h.queried.get(), h.gets.get());
    reach!();
}

//@ob fn="GetterFromHistory::new_custom_delta" at=src/lib.rs:386 clause="offset is the given delta: at clock reading now the history is queried at exactly now + delta (A7) and the value comes back restamped with now; the constructor reads neither clock nor history"
#[kani::proof]
fn c15_gfh_new_custom_delta() {
    let seq = Cell::new(0);
    let now: Time = kani::any();
    let delta: Time = kani::any();
    kani::assume(add_ok(now, delta));
    let ho: Option<Datum<Tok>> = kani::any();
    let mut h = Hist::new(ho, Ok(()), &seq);
    let mut c = Clk::new(any_time_output(), Ok(()), &seq);
    let g;
    {
        let s = GetterFromHistory::new_custom_delta(&mut h, rf(&mut c), delta);
        assert!(s.time_delta == delta);
        assert!(c.gets.get() == 0);
        c.out = Ok(now);
        g = s.get();
    }
    check_get(&g, now, Time(now.0 + delta.0), &ho, h.queried.get(), h.gets.get());
    reach!();
}

//@ob fn="GetterFromHistory::new_start_at_zero" at=src/lib.rs:360 clause="clock Ok(t0) at construction (t0 != i64::MIN, A7): construction succeeds, the construction instant maps to history time 0, and a later clock reading now maps to exactly now - t0 (A7), value restamped with now"
#[kani::proof]
fn c15_gfh_new_start_at_zero() {
    let seq = Cell::new(0);
    let t0: Time = kani::any();
    let now: Time = kani::any();
    kani::assume(t0.0 != i64::MIN);
    kani::assume(sub_ok(now, t0));
    let ho: Option<Datum<Tok>> = kani::any();
    let mut h = Hist::new(ho, Ok(()), &seq);
    let mut c = Clk::new(Ok(t0), Ok(()), &seq);
    match GetterFromHistory::new_start_at_zero(&mut h, rf(&mut c)) {
        Err(_) => assert!(false),
        Ok(s) => {
            // the construction instant maps to history time 0
            assert!(t0.0 + s.time_delta.0 == 0);
            c.out = Ok(now);
            let g = s.get();
            check_get(&g, now, Time(now.0 - t0.0), &ho, h.queried.get(), h.gets.get());
            reach!();
        }
    }
}

//@ob fn="GetterFromHistory::new_start_at_zero" at=src/lib.rs:364 clause="clock Err(e) at construction: the constructor returns Err(e); the history is not read"
#[kani::proof]
fn c15_gfh_new_start_at_zero_clock_error() {
    let seq = Cell::new(0);
    let e: Error<Er> = kani::any();
    let mut h = Hist::new(kani::any(), Ok(()), &seq);
    let mut c = Clk::new(Err(e), Ok(()), &seq);
    match GetterFromHistory::new_start_at_zero(&mut h, rf(&mut c)) {
        Err(e1) => assert!(e1 == e),
        Ok(_) => assert!(false),
    }
    assert!(h.gets.get() == 0);
    reach!();
}

//@ob fn="GetterFromHistory::new_custom_start" at=src/lib.rs:373 clause="clock Ok(t0) at construction, start - t0 not overflowing (A7): construction succeeds, the construction instant maps to history time `start`, and a later clock reading now maps to exactly start + (now - t0) (A7), value restamped with now"
#[kani::proof]
fn c15_gfh_new_custom_start() {
    let seq = Cell::new(0);
    let t0: Time = kani::any();
    let now: Time = kani::any();
    let start: Time = kani::any();
    kani::assume(sub_ok(start, t0));
    kani::assume(add_ok(now, Time(start.0 - t0.0)));
    let ho: Option<Datum<Tok>> = kani::any();
    let mut h = Hist::new(ho, Ok(()), &seq);
    let mut c = Clk::new(Ok(t0), Ok(()), &seq);
    match GetterFromHistory::new_custom_start(&mut h, rf(&mut c), start) {
        Err(_) => assert!(false),
        Ok(s) => {
            // the construction instant maps to history time `start`
            assert!(t0.0 + s.time_delta.0 == start.0);
            c.out = Ok(now);
            let g = s.get();
            check_get(&g, now, Time(now.0 + (start.0 - t0.0)), &ho, h.queried.get(), h.gets.get());
            reach!();
        }
    }
}

//@ob fn="GetterFromHistory::new_custom_start" at=src/lib.rs:378 clause="clock Err(e) at construction: the constructor returns Err(e); the history is not read"
#[kani::proof]
fn c15_gfh_new_custom_start_clock_error() {
    let seq = Cell::new(0);
    let e: Error<Er> = kani::any();
    let mut h = Hist::new(kani::any(), Ok(()), &seq);
    let mut c = Clk::new(Err(e), Ok(()), &seq);
    match GetterFromHistory::new_custom_start(&mut h, rf(&mut c), kani::any()) {
        Err(e1) => assert!(e1 == e),
        Ok(_) => assert!(false),
    }
    assert!(h.gets.get() == 0);
    reach!();
}

//@ob fn="GetterFromHistory::set_delta" at=src/lib.rs:398 clause="from an arbitrary offset: afterwards the offset is the given delta (history queried at now + delta, A7, restamped with now); neither clock nor history is read by set_delta"
#[kani::proof]
fn c15_gfh_set_delta() {
    let seq = Cell::new(0);
    let now: Time = kani::any();
    let delta: Time = kani::any();
    kani::assume(add_ok(now, delta));
    let ho: Option<Datum<Tok>> = kani::any();
    let mut h = Hist::new(ho, Ok(()), &seq);
    let mut c = Clk::new(Ok(now), Ok(()), &seq);
    let g;
    {
        let mut s = GetterFromHistory { history: &mut h, time_getter: rf(&mut c), time_delta: kani::any() };
        s.set_delta(delta);
        assert!(s.time_delta == delta);
        assert!(c.gets.get() == 0);
        g = s.get();
    }
    check_get(&g, now, Time(now.0 + delta.0), &ho, h.queried.get(), h.gets.get());
    reach!();
}

//@ob fn="GetterFromHistory::set_time" at=src/lib.rs:403 clause="from an arbitrary offset, clock Ok(now), t - now not overflowing (A7): afterwards now maps to exactly t (get at the same instant queries the history at t, restamped with now) and a later reading now2 maps to t + (now2 - now) (A7); returns Ok; the history is not read by set_time"
#[kani::proof]
fn c15_gfh_set_time() {
    let seq = Cell::new(0);
    let now: Time = kani::any();
    let now2: Time = kani::any();
    let t: Time = kani::any();
    kani::assume(sub_ok(t, now));
    kani::assume(add_ok(now2, Time(t.0 - now.0)));
    let ho: Option<Datum<Tok>> = kani::any();
    let mut h = Hist::new(ho, Ok(()), &seq);
    let mut c = Clk::new(Ok(now), Ok(()), &seq);
    let g;
    {
        let mut s = GetterFromHistory { history: &mut h, time_getter: rf(&mut c), time_delta: kani::any() };
        let r = s.set_time(t);
        assert!(r.is_ok());
        // now maps to t
        assert!(now.0 + s.time_delta.0 == t.0);
        c.out = Ok(now2);
        g = s.get();
    }
    check_get(&g, now2, Time(now2.0 + (t.0 - now.0)), &ho, h.queried.get(), h.gets.get());
    reach!();
}

//@ob fn="GetterFromHistory::set_time" at=src/lib.rs:404 clause="clock Err(e): set_time returns Err(e) and the offset is unchanged; the history is not read"
#[kani::proof]
fn c15_gfh_set_time_clock_error() {
    let seq = Cell::new(0);
    let e: Error<Er> = kani::any();
    let delta: Time = kani::any();
    let mut h = Hist::new(kani::any(), Ok(()), &seq);
    let mut c = Clk::new(Err(e), Ok(()), &seq);
    {
        let mut s = GetterFromHistory { history: &mut h, time_getter: rf(&mut c), time_delta: delta };
        let r = s.set_time(kani::any());
        assert!(r == Err(e));
        assert!(s.time_delta == delta);
    }
    assert!(h.gets.get() == 0);
    reach!();
}

// ========================================================================================== ConstantGetter
type Cg<'s> = ConstantGetter<Tok, Clk<'s>, Er>;
fn any_cg<'s>(clock: Reference<Clk<'s>>, fol: &mut Scripted<Tok>, following: bool) -> Cg<'s> {
    ConstantGetter {
        settable_data: SettableData {
            following: if following { Some(rf_dyn(fol)) } else { None },
            last_request: kani::any(),
        },
        time_getter: clock,
        value: kani::any(),
    }
}

//@ob fn="ConstantGetter::new" at=src/lib.rs:433 clause="new(clock, v) holds v, follows nothing, has no last request"
#[kani::proof]
fn c15_constant_new() {
    let seq = Cell::new(0);
    let mut c = Clk::new(any_time_output(), Ok(()), &seq);
    let v: Tok = kani::any();
    let s = ConstantGetter::<Tok, _, Er>::new(rf(&mut c), v);
    assert!(s.value == v && s.settable_data.following.is_none() && s.settable_data.last_request.is_none());
    assert!(c.gets.get() == 0);
    reach!();
}

//@ob fn="<ConstantGetter<T,TG,E> as Getter>::get" at=src/lib.rs:444 clause="arbitrary state: clock Ok(t) => Ok(Some) of exactly the current value stamped t; clock Err(e) => Err(e); state unchanged, clock read once"
#[kani::proof]
fn c15_constant_get() {
    both_ways(body_c15_constant_get);
    reach!();
}
fn body_c15_constant_get(following: bool) {
    let seq = Cell::new(0);
    let co = any_time_output();
    let mut c = Clk::new(co, Ok(()), &seq);
    let mut fol = Scripted::<Tok>::new(any_output());
    let s = any_cg(rf(&mut c), &mut fol, following);
    let v0 = s.value;
    let l0 = s.settable_data.last_request;
    let g = s.get();
    match co {
        Ok(t) => assert!(g.beq(&Ok(Some(Datum::new(t, v0))))),
        Err(e) => assert!(g.beq(&Err(e))),
    }
    assert!(s.value == v0 && s.settable_data.last_request.beq(&l0));
    assert!(c.gets.get() == 1 && fol.gets.get() == 0);
    kani::cover!(following, "reach-following");
    kani::cover!(!following, "reach-not-following");
}

//@ob fn="<ConstantGetter<T,TG,E> as Settable>::impl_set" at=src/lib.rs:458 clause="set(v) on an arbitrary state: returns Ok, the value becomes exactly v, the last request becomes Some(v), get() then returns v at the clock's time; the followed getter is unchanged"
#[kani::proof]
fn c15_constant_set() {
    both_ways(body_c15_constant_set);
    reach!();
}
fn body_c15_constant_set(following: bool) {
    let seq = Cell::new(0);
    let t: Time = kani::any();
    let mut c = Clk::new(Ok(t), Ok(()), &seq);
    let mut fol = Scripted::<Tok>::new(any_output());
    let mut s = any_cg(rf(&mut c), &mut fol, following);
    let f0 = following_addr(&s.settable_data);
    let v: Tok = kani::any();
    let r = s.set(v);
    assert!(r.is_ok());
    assert!(s.value == v && s.settable_data.last_request == Some(v) && s.get_last_request() == Some(v));
    assert!(s.get().beq(&Ok(Some(Datum::new(t, v)))));
    assert!(following_addr(&s.settable_data) == f0);
    kani::cover!(following, "reach-following");
    kani::cover!(!following, "reach-not-following");
}

//@ob fn="<ConstantGetter<T,TG,E> as Updatable>::update" at=src/lib.rs:467 also_thorough=rel_check clause="update follows: not following => Ok, unchanged; followed getter present d => value and last request become d.value; absent => Ok, unchanged; Err(e) => Err(e), unchanged; the clock is neither read nor updated"
#[kani::proof]
fn c15_constant_update() {
    both_ways(body_c15_constant_update);
    reach!();
}
fn body_c15_constant_update(following: bool) {
    let seq = Cell::new(0);
    let mut c = Clk::new(any_time_output(), Ok(()), &seq);
    let ev = any_output::<Tok>();
    let mut fol = Scripted::<Tok>::new(ev);
    let mut s = any_cg(rf(&mut c), &mut fol, following);
    let v0 = s.value;
    let l0 = s.settable_data.last_request;
    let r = s.update();
    if !following {
        assert!(r.is_ok() && s.value == v0 && s.settable_data.last_request.beq(&l0) && fol.gets.get() == 0);
    } else {
        match ev {
            Ok(Some(d)) => assert!(r.is_ok() && s.value == d.value && s.settable_data.last_request == Some(d.value)),
            Ok(None) => assert!(r.is_ok() && s.value == v0 && s.settable_data.last_request.beq(&l0)),
            Err(e) => assert!(r == Err(e) && s.value == v0 && s.settable_data.last_request.beq(&l0)),
        }
        assert!(fol.gets.get() == 1);
    }
    assert!(s.settable_data.following.is_some() == following);
    assert!(c.gets.get() == 0 && c.updates == 0);
    kani::cover!(following, "reach-following");
    kani::cover!(!following, "reach-not-following");
}

// ================================================================== TimeGetterFromGetter, Time, NoneGetter
//@ob fn="<TimeGetterFromGetter<T,G,E> as TimeGetter>::get" at=src/lib.rs:327 clause="getter present d => Ok(d.time); absent => Err(FromNone); Err(e) => Err(e); the expect() inside cannot fail (no panic for any getter output); update() is Ok and does not touch the getter"
#[kani::proof]
fn c15_time_getter_from_getter() {
    let ev = any_output::<Tok>();
    let mut inp = Scripted::new(ev);
    let mut s = TimeGetterFromGetter::<Tok, Scripted<Tok>, Er>::new(rf(&mut inp));
    let r = s.get();
    match ev {
        Ok(Some(d)) => assert!(r == Ok(d.time)),
        Ok(None) => assert!(r == Err(Error::FromNone)),
        Err(e) => assert!(r == Err(e)),
    }
    let r2 = s.get();
    assert!(r == r2);
    assert!(s.update().is_ok());
    assert!(inp.updates == 0 && inp.gets.get() == 2);
    reach!();
}

//@ob fn="<Time as TimeGetter>::get" at=src/lib.rs:492 clause="a Time used as a time getter returns itself; its update() is Ok and leaves it unchanged"
#[kani::proof]
fn c15_time_as_time_getter() {
    let mut t: Time = kani::any();
    let t0 = t;
    let r = <Time as TimeGetter<Er>>::get(&t);
    assert!(r == Ok(t0));
    let u = <Time as Updatable<Er>>::update(&mut t);
    assert!(u.is_ok() && t == t0);
    assert!(<Time as TimeGetter<Er>>::get(&t) == Ok(t0));
    reach!();
}

//@ob fn="<NoneGetter as Getter>::get" at=src/lib.rs:482 clause="NoneGetter always returns Ok(None); its update() is Ok; following it forwards nothing"
#[kani::proof]
fn c15_none_getter() {
    let mut n = NoneGetter::new();
    let g: Output<Tok, Er> = <NoneGetter as Getter<Tok, Er>>::get(&n);
    assert!(g.beq(&Ok(None)));
    assert!(<NoneGetter as Updatable<Er>>::update(&mut n).is_ok());
    let g2: Output<Tok, Er> = <NoneGetter as Getter<Tok, Er>>::get(&n);
    assert!(g2.beq(&Ok(None)));
    reach!();
}
