//@host src/command.rs
//@config std_nocheck
// C14 (Command half), the clauses that must not depend on the dimension-checking configuration: the property says that
// adding or subtracting commands of different kinds panics, without qualification.  In the pinned crate the four
// operators assert the kind themselves, so they panic whether or not unit checking is compiled in; an implementation that
// delegates the refusal to Quantity's unit check panics only in checked builds.  These obligations are the ones of
// c14_command.rs re-proved with dim checking compiled OUT (--no-default-features --features std).
#![allow(unused_imports, dead_code)]
use crate::*;
use crate::verif_support::*;

/// See c14_command.rs: keeps the should_panic verdict defined; constrains nothing.
fn always_panics_sentinel() {
    if kani::any() {
        panic!("sentinel: not part of the obligation");
    }
}
fn kind_of(c: Command) -> u8 {
    match c {
        Command::Position(_) => 0,
        Command::Velocity(_) => 1,
        Command::Acceleration(_) => 2,
    }
}
fn val_of(c: Command) -> f32 {
    match c {
        Command::Position(x) | Command::Velocity(x) | Command::Acceleration(x) => x,
    }
}

//@ob fn="<Command as Add>::add" at=src/command.rs:92 clause="unit checking compiled out: different kinds (all 6 ordered pairs, all values) still ALWAYS panics"
#[kani::proof]
#[kani::should_panic]
fn c14_command_add_different_kind_panics_nocheck() {
    always_panics_sentinel();
    let a: Command = kani::any();
    let b: Command = kani::any();
    kani::assume(kind_of(a) != kind_of(b));
    let _r = a + b;
    kani::cover!(true, "unreach: returned normally");
}

//@ob fn="<Command as Sub>::sub" at=src/command.rs:100 clause="unit checking compiled out: different kinds still ALWAYS panics"
#[kani::proof]
#[kani::should_panic]
fn c14_command_sub_different_kind_panics_nocheck() {
    always_panics_sentinel();
    let a: Command = kani::any();
    let b: Command = kani::any();
    kani::assume(kind_of(a) != kind_of(b));
    let _r = a - b;
    kani::cover!(true, "unreach: returned normally");
}

//@ob fn="<Command as AddAssign>::add_assign" at=src/command.rs:134 clause="unit checking compiled out: different kinds still ALWAYS panics"
#[kani::proof]
#[kani::should_panic]
fn c14_command_add_assign_different_kind_panics_nocheck() {
    always_panics_sentinel();
    let mut a: Command = kani::any();
    let b: Command = kani::any();
    kani::assume(kind_of(a) != kind_of(b));
    a += b;
    kani::cover!(true, "unreach: returned normally");
}

//@ob fn="<Command as SubAssign>::sub_assign" at=src/command.rs:139 clause="unit checking compiled out: different kinds still ALWAYS panics"
#[kani::proof]
#[kani::should_panic]
fn c14_command_sub_assign_different_kind_panics_nocheck() {
    always_panics_sentinel();
    let mut a: Command = kani::any();
    let b: Command = kani::any();
    kani::assume(kind_of(a) != kind_of(b));
    a -= b;
    kani::cover!(true, "unreach: returned normally");
}

//@ob fn="<Command as Add>::add, <Command as Sub>::sub" at=src/command.rs:92 clause="unit checking compiled out: same kind keeps the kind and the value is the f32 sum / difference (bit-identical), no panic"
#[kani::proof]
fn c14_command_add_sub_same_kind_nocheck() {
    let a: Command = kani::any();
    let b: Command = kani::any();
    kani::assume(kind_of(a) == kind_of(b));
    let s = a + b;
    let d = a - b;
    assert!(kind_of(s) == kind_of(a) && kind_of(d) == kind_of(a));
    assert!(fsame(val_of(s), val_of(a) + val_of(b)));
    assert!(fsame(val_of(d), val_of(a) - val_of(b)));
}
