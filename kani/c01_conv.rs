//@host src/dimensions.rs
//@config dev
// C01, last clause: position / velocity / acceleration map to mm, mm/s, mm/s^2 in both directions
// (PositionDerivative <-> Unit, Command <-> Quantity, MotionProfilePiece -> Unit).  Units are symbolic over the
// whole i8 x i8 plane; f32 payloads are only moved, so they are compared bit for bit (default SAT solver:
// `Command` is an enum carrying an f32, which the cvc5 back end cannot encode).
// Expected exponents are the statement's: the k-th derivative of position is mm^1 s^-k.
#![allow(unused_imports, dead_code)]
use crate::*;
use crate::verif_support::*;

fn any_exps() -> (i8, i8) { (kani::any(), kani::any()) }
fn pd_of(k: u8) -> PositionDerivative {
    match k { 0 => PositionDerivative::Position, 1 => PositionDerivative::Velocity, _ => PositionDerivative::Acceleration }
}
fn cmd_of(k: u8, v: f32) -> Command {
    match k { 0 => Command::Position(v), 1 => Command::Velocity(v), _ => Command::Acceleration(v) }
}
/// order of differentiation stated by (m, s), if it is one of mm, mm/s, mm/s^2
fn order_of(m: i8, s: i8) -> Option<u8> {
    if m == 1 && s == 0 { Some(0) } else if m == 1 && s == -1 { Some(1) } else if m == 1 && s == -2 { Some(2) } else { None }
}

//@ob fn="<Unit as From<PositionDerivative>>::from" at=src/dimensions.rs:479 clause="Position, Velocity, Acceleration map to mm^1 s^0, mm^1 s^-1, mm^1 s^-2, and converting the unit back gives the same PositionDerivative"
#[kani::proof]
fn c01_unit_from_position_derivative() {
    let k: u8 = kani::any();
    kani::assume(k < 3);
    let pd = pd_of(k);
    let u = Unit::from(pd);
    assert!(u == Unit::new(1, -(k as i8)));
    assert!(u.millimeter_exp == 1 && u.second_exp == -(k as i8));
    let u2: Unit = pd.into();
    assert!(u2 == u);
    assert!(PositionDerivative::try_from(u) == Ok(pd));
    kani::cover!(k == 0, "position");
    kani::cover!(k == 1, "velocity");
    kani::cover!(k == 2, "acceleration");
    reach!();
}

//@ob fn="<PositionDerivative as TryFrom<Unit>>::try_from" at=src/lib.rs:99 clause="Ok(Position|Velocity|Acceleration) exactly for mm^1 s^0 | s^-1 | s^-2 and Err(()) for every other unit of i8 x i8; an Ok result converts back to the same unit"
#[kani::proof]
fn c01_position_derivative_try_from_unit() {
    let (m, s) = any_exps();
    let u = Unit::new(m, s);
    let r = PositionDerivative::try_from(u);
    let want = match order_of(m, s) { Some(k) => Ok(pd_of(k)), None => Err(()) };
    assert!(r == want);
    let r2: Result<PositionDerivative, ()> = u.try_into();
    assert!(r2 == want);
    if let Ok(pd) = r { assert!(Unit::from(pd) == u); }
    kani::cover!(r == Ok(PositionDerivative::Position), "Ok(Position)");
    kani::cover!(r == Ok(PositionDerivative::Velocity), "Ok(Velocity)");
    kani::cover!(r == Ok(PositionDerivative::Acceleration), "Ok(Acceleration)");
    kani::cover!(r.is_err() && m == 1 && s == 1, "Err for mm s (only the sign of the second exponent is wrong)");
    kani::cover!(r.is_err() && m == 0 && s == -1, "Err for s^-1 (only the millimeter exponent is wrong)");
    reach!();
}

//@ob fn="<Quantity as From<Command>>::from" at=src/dimensions.rs:665 clause="value moved bit for bit; Position, Velocity, Acceleration commands become mm^1 s^0, s^-1, s^-2; converting back gives the same command"
#[kani::proof]
fn c01_quantity_from_command() {
    let k: u8 = kani::any();
    kani::assume(k < 3);
    let v: f32 = kani::any();
    let c = cmd_of(k, v);
    let q = Quantity::from(c);
    assert!(feq(q.value, v));
    assert!(q.unit == Unit::new(1, -(k as i8)));
    assert!(q.unit.millimeter_exp == 1 && q.unit.second_exp == -(k as i8));
    let q2: Quantity = c.into();
    assert!(feq(q2.value, v) && q2.unit == q.unit);
    match Command::try_from(q) {
        Ok(c2) => assert!(command_bits_eq(c2, c)),
        Err(()) => assert!(false, "round trip Command -> Quantity -> Command failed"),
    }
    kani::cover!(k == 0, "position");
    kani::cover!(k == 1, "velocity");
    kani::cover!(k == 2, "acceleration");
    reach!();
}

//@ob fn="<Command as TryFrom<Quantity>>::try_from" at=src/command.rs:72 clause="Ok with the value moved bit for bit and kind Position|Velocity|Acceleration exactly for mm^1 s^0 | s^-1 | s^-2; Err(()) for every other unit of i8 x i8; an Ok result converts back to the same quantity"
#[kani::proof]
fn c01_command_try_from_quantity() {
    let (m, s) = any_exps();
    let v: f32 = kani::any();
    let q = Quantity::new(v, Unit::new(m, s));
    let r = Command::try_from(q);
    match order_of(m, s) {
        Some(k) => match r {
            Ok(c) => {
                assert!(command_bits_eq(c, cmd_of(k, v)));
                assert!(PositionDerivative::from(c) == pd_of(k) && feq(f32::from(c), v));
                let back = Quantity::from(c);
                assert!(back.unit == q.unit && feq(back.value, v));
            }
            Err(()) => assert!(false, "mm, mm/s, mm/s^2 must convert"),
        },
        None => assert!(r.is_err()),
    }
    let r2: Result<Command, ()> = q.try_into();
    assert!(r2.is_ok() == r.is_ok());
    kani::cover!(matches!(r, Ok(Command::Position(_))), "Ok(Position)");
    kani::cover!(matches!(r, Ok(Command::Velocity(_))), "Ok(Velocity)");
    kani::cover!(matches!(r, Ok(Command::Acceleration(_))), "Ok(Acceleration)");
    kani::cover!(r.is_err() && m == 1 && s == 2, "Err for mm s^2");
    kani::cover!(r.is_err() && m == -1 && s == 0, "Err for mm^-1");
    reach!();
}

//@ob fn="<Unit as TryFrom<MotionProfilePiece>>::try_from" at=src/dimensions.rs:501 clause="acceleration pieces give mm^1 s^-2, the constant-velocity piece mm^1 s^-1, BeforeStart and Complete give Err(())"
#[kani::proof]
fn c01_unit_try_from_motion_profile_piece() {
    let k: u8 = kani::any();
    kani::assume(k < 5);
    let (piece, want) = match k {
        0 => (MotionProfilePiece::BeforeStart, None),
        1 => (MotionProfilePiece::InitialAcceleration, Some(Unit::new(1, -2))),
        2 => (MotionProfilePiece::ConstantVelocity, Some(Unit::new(1, -1))),
        3 => (MotionProfilePiece::EndAcceleration, Some(Unit::new(1, -2))),
        _ => (MotionProfilePiece::Complete, None),
    };
    let r = Unit::try_from(piece);
    match (r, want) {
        (Ok(u), Some(w)) => assert!(u == w),
        (Err(()), None) => {}
        _ => assert!(false, "wrong Ok/Err category"),
    }
    kani::cover!(k == 0, "BeforeStart");
    kani::cover!(k == 1, "InitialAcceleration");
    kani::cover!(k == 2, "ConstantVelocity");
    kani::cover!(k == 3, "EndAcceleration");
    kani::cover!(k == 4, "Complete");
    reach!();
}

//@ob fn="Quantity::new / Quantity::dimensionless / <f32 as From<Quantity>>::from" at=src/dimensions.rs:636 clause="constructors store value (bit for bit) and unit; dimensionless() is mm^0 s^0; f32::from returns the value bit for bit"
#[kani::proof]
fn c01_quantity_constructors_and_f32() {
    let (m, s) = any_exps();
    let v: f32 = kani::any();
    let q = Quantity::new(v, Unit::new(m, s));
    assert!(feq(q.value, v) && q.unit == Unit::new(m, s) && q.unit.millimeter_exp == m && q.unit.second_exp == s);
    let d = Quantity::dimensionless(v);
    assert!(feq(d.value, v) && d.unit == Unit::new(0, 0));
    assert!(feq(f32::from(q), v));
    let f: f32 = q.into();
    assert!(feq(f, v));
    reach!();
}
