//@host src/streams/converters.rs
//@config dev
// C05 one-step contracts of the pass-through converters FloatToQuantity and QuantityToFloat over an ARBITRARY
// pre-state (cached value symbolic, a cached error included).  Both are memoryless: the post-state of update is
// a function of this update's input alone, which is freshness and reset-equivalence at once.
#![allow(unused_imports, dead_code)]
use super::*;
use crate::verif_c05_bits::*;
use crate::verif_support::*;
use crate::*;

// ---------------------------------------------------------------------------------------- FloatToQuantity
type F2q = FloatToQuantity<Scripted<f32>, Er>;
fn any_f2q(input: Reference<Scripted<f32>>) -> F2q {
    FloatToQuantity { unit: kani::any(), input: input, value: any_output() }
}

//@ob fn="FloatToQuantity::new" at=src/streams/converters.rs:438 clause="new() caches Ok(None) and stores the unit; get() of it is Ok(None)"
#[kani::proof]
fn c05_f2q_new() {
    let mut inp = Scripted::<f32>::new(any_output());
    let u: Unit = kani::any();
    let s = FloatToQuantity::<Scripted<f32>, Er>::new(u, rf(&mut inp));
    assert!(s.value.beq(&Ok(None)) && s.unit == u);
    assert!(s.get().beq(&Ok(None)));
    reach!();
}

//@ob fn="<FloatToQuantity<G,E> as Updatable>::update" at=src/streams/converters.rs:447 clause="freshness from an arbitrary pre-state (cached error included): update always returns Ok(()) and caches exactly what the input returned; get() afterwards is Err(e) iff this update's input was Err(e), Ok(None) iff absent, and for present d: d.time, d.value bit for bit, the stream's unit; unit unchanged; input read once, never updated"
#[kani::proof]
fn c05_f2q_fresh() {
    let ev = any_output::<f32>();
    let mut inp = Scripted::new(ev);
    let mut s = any_f2q(rf(&mut inp));
    let u = s.unit;
    let r = s.update();
    let g = s.get();
    assert!(r.is_ok());
    assert!(s.value.beq(&ev));
    assert!(err_of(&g) == err_of(&ev));
    let want: Output<Quantity, Er> = match ev {
        Err(e) => Err(e),
        Ok(None) => Ok(None),
        Ok(Some(d)) => Ok(Some(Datum::new(d.time, Quantity::new(d.value, u)))),
    };
    assert!(g.beq(&want));
    assert!(s.unit == u);
    assert!(inp.gets.get() == 1 && inp.updates == 0);
    reach!();
}

//@ob fn="<FloatToQuantity<G,E> as Updatable>::update" at=src/streams/converters.rs:447 clause="memoryless (reset-equivalence for EVERY event): step(s, ev) == step(new(same unit), ev), cached value and get() bit-equal, for arbitrary s and every error / absent / present ev"
#[kani::proof]
fn c05_f2q_memoryless() {
    let ev = any_output::<f32>();
    let mut inp = Scripted::new(ev);
    let mut s = any_f2q(rf(&mut inp));
    let mut fresh = FloatToQuantity::<Scripted<f32>, Er>::new(s.unit, rf(&mut inp));
    let r1 = s.update();
    let r2 = fresh.update();
    assert!(r1.beq(&r2));
    assert!(s.value.beq(&fresh.value) && s.unit == fresh.unit);
    assert!(s.get().beq(&fresh.get()));
    reach!();
}

//@ob fn="<FloatToQuantity<G,E> as Getter>::get" at=src/streams/converters.rs:453 clause="purity: get() twice the same (bitwise), cached value and unit bit-unchanged, input not touched; arbitrary state"
#[kani::proof]
fn c05_f2q_get_pure() {
    let mut inp = Scripted::<f32>::new(any_output());
    let s = any_f2q(rf(&mut inp));
    let pre_v = s.value;
    let pre_u = s.unit;
    let g1 = s.get();
    let g2 = s.get();
    assert!(g1.beq(&g2));
    assert!(cat_of(&g1) == cat_of(&pre_v) && err_of(&g1) == err_of(&pre_v) && time_of(&g1) == time_of(&pre_v));
    assert!(s.value.beq(&pre_v) && s.unit == pre_u);
    assert!(inp.gets.get() == 0 && inp.updates == 0);
    reach!();
}

// ---------------------------------------------------------------------------------------- QuantityToFloat
type Q2f = QuantityToFloat<Scripted<Quantity>, Er>;
fn any_q2f(input: Reference<Scripted<Quantity>>) -> Q2f {
    QuantityToFloat { input: input, value: any_output() }
}

//@ob fn="QuantityToFloat::new" at=src/streams/converters.rs:471 clause="new() caches Ok(None); get() of it is Ok(None)"
#[kani::proof]
fn c05_q2f_new() {
    let mut inp = Scripted::<Quantity>::new(any_output());
    let s = QuantityToFloat::<Scripted<Quantity>, Er>::new(rf(&mut inp));
    assert!(s.value.beq(&Ok(None)));
    assert!(s.get().beq(&Ok(None)));
    reach!();
}

//@ob fn="<QuantityToFloat<G,E> as Updatable>::update" at=src/streams/converters.rs:484 clause="freshness from an arbitrary pre-state (cached error included): update always returns Ok(()); get() afterwards is Err(e) iff this update's input was Err(e), Ok(None) iff absent, and for present d exactly (d.time, d.value.value bit for bit); input read once, never updated"
#[kani::proof]
fn c05_q2f_fresh() {
    let ev = any_output::<Quantity>();
    let mut inp = Scripted::new(ev);
    let mut s = any_q2f(rf(&mut inp));
    let r = s.update();
    let g = s.get();
    assert!(r.is_ok());
    assert!(err_of(&g) == err_of(&ev));
    let want: Output<f32, Er> = match ev {
        Err(e) => Err(e),
        Ok(None) => Ok(None),
        Ok(Some(d)) => Ok(Some(Datum::new(d.time, d.value.value))),
    };
    assert!(g.beq(&want));
    assert!(inp.gets.get() == 1 && inp.updates == 0);
    reach!();
}

//@ob fn="<QuantityToFloat<G,E> as Updatable>::update" at=src/streams/converters.rs:484 clause="memoryless (reset-equivalence for EVERY event): step(s, ev) == step(new(), ev), cached value and get() bit-equal, for arbitrary s and every error / absent / present ev"
#[kani::proof]
fn c05_q2f_memoryless() {
    let ev = any_output::<Quantity>();
    let mut inp = Scripted::new(ev);
    let mut s = any_q2f(rf(&mut inp));
    let mut fresh = QuantityToFloat::<Scripted<Quantity>, Er>::new(rf(&mut inp));
    let r1 = s.update();
    let r2 = fresh.update();
    assert!(r1.beq(&r2));
    assert!(s.value.beq(&fresh.value));
    assert!(s.get().beq(&fresh.get()));
    reach!();
}

//@ob fn="<QuantityToFloat<G,E> as Getter>::get" at=src/streams/converters.rs:479 clause="purity: get() returns the cached value, twice the same (bitwise), cached value bit-unchanged, input not touched; arbitrary state"
#[kani::proof]
fn c05_q2f_get_pure() {
    let mut inp = Scripted::<Quantity>::new(any_output());
    let s = any_q2f(rf(&mut inp));
    let pre = s.value;
    let g1 = s.get();
    let g2 = s.get();
    assert!(g1.beq(&g2) && g1.beq(&pre));
    assert!(s.value.beq(&pre));
    assert!(inp.gets.get() == 0 && inp.updates == 0);
    reach!();
}
