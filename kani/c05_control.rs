//@host src/streams/control.rs
//@config dev
// C05 one-step contracts of PIDControllerStream and EWMAStream (generic impl at T = Tok, Quantity impl) over an
// ARBITRARY pre-state: every private field is kani::any(), constrained only by the stated data invariant, which
// is itself proved inductive (`*_inv_new`, `*_inv_step`).  MovingAverageStream is handled by the Verus engine.
#![allow(unused_imports, dead_code)]
use super::*;
use crate::verif_c05_bits::*;
use crate::verif_support::*;
use crate::*;

// ------------------------------------------------------------------------------------------------ PID
type Pid = PIDControllerStream<Scripted<f32>, Er>;

#[derive(Clone, Copy)]
struct PidSnap {
    setpoint: f32,
    kvals: PIDKValues,
    prev_error: Option<Datum<f32>>,
    int_error: f32,
    output: Output<f32, Er>,
}
fn pid_snap(s: &Pid) -> PidSnap {
    PidSnap { setpoint: s.setpoint, kvals: s.kvals, prev_error: s.prev_error, int_error: s.int_error, output: s.output }
}
fn pid_snap_eq(a: &PidSnap, b: &PidSnap) -> bool {
    a.setpoint.beq(&b.setpoint)
        && a.kvals.beq(&b.kvals)
        && a.prev_error.beq(&b.prev_error)
        && a.int_error.beq(&b.int_error)
        && a.output.beq(&b.output)
}
/// Arbitrary PID state: every private field symbolic.
fn any_pid(input: Reference<Scripted<f32>>) -> Pid {
    PIDControllerStream {
        input: input,
        setpoint: kani::any(),
        kvals: kani::any(),
        prev_error: kani::any(),
        int_error: kani::any(),
        output: any_output(),
    }
}
/// Data invariant (what the `debug_assert_eq!(self.int_error, 0.0)` in `update` relies on).
fn pid_inv(s: &Pid) -> bool {
    s.prev_error.is_some() || s.int_error == 0.0
}
/// Stronger structural invariant: the cached output is present exactly when a previous error is stored, with
/// the same timestamp.
fn pid_inv_strong(s: &Pid) -> bool {
    pid_inv(s)
        && match (&s.prev_error, &s.output) {
            (Some(p), Ok(Some(o))) => p.time == o.time,
            (None, Ok(None)) | (None, Err(_)) => true,
            _ => false,
        }
}
/// A7 for one PID step: the time difference to the stored sample does not overflow.
fn pid_a7(s: &Pid, ev: &Output<f32, Er>) -> bool {
    match (&s.prev_error, ev) {
        (Some(p), Ok(Some(d))) => sub_ok(d.time, p.time),
        _ => true,
    }
}

//@ob fn="PIDControllerStream::new" at=src/streams/control.rs:21 also=rel_check clause="data invariant (prev_error None => int_error == 0; output present iff prev_error stored, same time) holds of a new stream; new() is (None, +0.0, Ok(None)) with the given parameters"
#[kani::proof]
fn c05_pid_inv_new() {
    let mut inp = Scripted::<f32>::new(any_output());
    let sp: f32 = kani::any();
    let kv: PIDKValues = kani::any();
    let s = PIDControllerStream::<Scripted<f32>, Er>::new(rf(&mut inp), sp, kv);
    assert!(pid_inv(&s));
    assert!(pid_inv_strong(&s));
    assert!(s.prev_error.is_none() && feq(s.int_error, 0.0) && s.output.beq(&Ok(None)));
    assert!(feq(s.setpoint, sp) && s.kvals.beq(&kv));
    reach!();
}

//@ob fn="<PIDControllerStream<G,E> as Updatable>::update" at=src/streams/control.rs:44 prop=C05,C04 also=rel_check clause="data invariant is inductive: inv(s) => inv(update(s, ev)) for every input event, and update establishes the strong structural invariant from any inv-state; no panic (debug_assert unreachable-to-fail; A7 on the time difference)"
#[kani::proof]
fn c05_pid_inv_step() {
    let ev = any_output::<f32>();
    let mut inp = Scripted::new(ev);
    let mut s = any_pid(rf(&mut inp));
    kani::assume(pid_inv(&s));
    kani::assume(pid_a7(&s, &ev));
    let _ = s.update();
    assert!(pid_inv(&s));
    assert!(pid_inv_strong(&s));
    reach!();
}

//@ob fn="<PIDControllerStream<G,E> as Updatable>::update" at=src/streams/control.rs:44 prop=C05,C04 also=rel_check clause="freshness from an arbitrary inv-state (cached error included): update returns Err(e) iff the input returned Err(e); get() afterwards is Err(e) iff this update's input was Err(e); absent => Ok(None); present d => Ok(Some) stamped d.time and prev_error stamped d.time; parameters unchanged; input read once, never updated"
#[kani::proof]
fn c05_pid_fresh() {
    let ev = any_output::<f32>();
    let mut inp = Scripted::new(ev);
    let mut s = any_pid(rf(&mut inp));
    kani::assume(pid_inv(&s));
    kani::assume(pid_a7(&s, &ev));
    let pre = pid_snap(&s);
    let r = s.update();
    let g = s.get();
    assert!(nerr_of(&r) == err_of(&ev));
    assert!(err_of(&g) == err_of(&ev));
    assert!(cat_of(&g) == cat_of(&ev));
    assert!(time_of(&g) == time_of(&ev));
    if let Ok(Some(d)) = ev {
        assert!(matches!(s.prev_error, Some(p) if p.time == d.time));
    }
    assert!(feq(s.setpoint, pre.setpoint) && s.kvals.beq(&pre.kvals));
    assert!(inp.gets.get() == 1 && inp.updates == 0);
    reach!();
}

fn pid_reset_check(ev: Output<f32, Er>) {
    let mut inp = Scripted::new(ev);
    let mut s = any_pid(rf(&mut inp));
    kani::assume(pid_inv(&s));
    let mut fresh = PIDControllerStream::<Scripted<f32>, Er>::new(rf(&mut inp), s.setpoint, s.kvals);
    let r1 = s.update();
    let r2 = fresh.update();
    assert!(r1.beq(&r2));
    assert!(pid_snap_eq(&pid_snap(&s), &pid_snap(&fresh)));
    assert!(s.get().beq(&fresh.get()));
    reach!();
}

//@ob fn="<PIDControllerStream<G,E> as Updatable>::update" at=src/streams/control.rs:48 prop=C05,C04 also=rel_check clause="reset on absent: step(s, None) == step(new(same parameters), None), every field bit-equal, for an arbitrary inv-state s"
#[kani::proof]
fn c05_pid_reset_absent() {
    pid_reset_check(Ok(None));
}

//@ob fn="<PIDControllerStream<G,E> as Updatable>::update" at=src/streams/control.rs:52 prop=C05,C04 also=rel_check clause="reset on error: step(s, Err e) == step(new(same parameters), Err e), every field bit-equal, for an arbitrary inv-state s and every e"
#[kani::proof]
fn c05_pid_reset_error() {
    pid_reset_check(Err(kani::any()));
}

//@ob fn="<PIDControllerStream<G,E> as Getter>::get" at=src/streams/control.rs:39 also=rel_check clause="purity: get() returns the cached output, twice the same (bitwise), every field bit-unchanged, input not touched; arbitrary state (no invariant needed)"
#[kani::proof]
fn c05_pid_get_pure() {
    let mut inp = Scripted::<f32>::new(any_output());
    let s = any_pid(rf(&mut inp));
    let pre = pid_snap(&s);
    let g1 = s.get();
    let g2 = s.get();
    assert!(g1.beq(&g2) && g1.beq(&pre.output));
    assert!(pid_snap_eq(&pre, &pid_snap(&s)));
    assert!(inp.gets.get() == 0 && inp.updates == 0);
    reach!();
}

// ------------------------------------------------------------------------------------------------ EWMA
// One macro, two instantiations of the harness bodies: the generic impl (payload Tok: by parametricity the
// structure proved for Tok is the structure for every T) and the separate `EWMAStream<Quantity, ..>` impl.
macro_rules! ewma_bodies {
    ($m:ident, $ty:ty, $unit_pre:expr) => {
        mod $m {
            use super::*;
            pub type Ew = EWMAStream<$ty, Scripted<$ty>, Er>;
            #[derive(Clone, Copy)]
            pub struct Snap {
                pub smoothing_constant: f32,
                pub value: Output<$ty, Er>,
                pub update_time: Option<Time>,
            }
            pub fn snap(s: &Ew) -> Snap {
                Snap { smoothing_constant: s.smoothing_constant, value: s.value, update_time: s.update_time }
            }
            pub fn snap_eq(a: &Snap, b: &Snap) -> bool {
                a.smoothing_constant.beq(&b.smoothing_constant) && a.value.beq(&b.value) && a.update_time.beq(&b.update_time)
            }
            /// Arbitrary EWMA state: every private field symbolic.
            pub fn any_ewma(input: Reference<Scripted<$ty>>) -> Ew {
                EWMAStream { input: input, smoothing_constant: kani::any(), value: any_output(), update_time: kani::any() }
            }
            /// Data invariant (what the `expect("update_time must be Some if value is")` relies on).
            pub fn inv(s: &Ew) -> bool {
                !matches!(s.value, Ok(Some(_))) || s.update_time.is_some()
            }
            /// Stronger: update_time is exactly the cached value's timestamp, and None otherwise.
            pub fn inv_strong(s: &Ew) -> bool {
                match (&s.value, &s.update_time) {
                    (Ok(Some(v)), Some(t)) => v.time == *t,
                    (Ok(None), None) | (Err(_), None) => true,
                    _ => false,
                }
            }
            /// Preconditions of one step: A7 (time difference) and, for the Quantity impl, unit homogeneity
            /// (adding quantities of different units panics by design, C01).
            pub fn pre_ok(s: &Ew, ev: &Output<$ty, Er>) -> bool {
                match (&s.value, &s.update_time, ev) {
                    (Ok(Some(v)), Some(t), Ok(Some(d))) => sub_ok(d.time, *t) && $unit_pre(&v.value, &d.value),
                    _ => true,
                }
            }
            pub fn inv_new() {
                let mut inp = Scripted::<$ty>::new(any_output());
                let sc: f32 = kani::any();
                let s = EWMAStream::<$ty, Scripted<$ty>, Er>::new(rf(&mut inp), sc);
                assert!(inv(&s) && inv_strong(&s));
                assert!(s.value.beq(&Ok(None)) && s.update_time.is_none() && feq(s.smoothing_constant, sc));
                reach!();
            }
            pub fn inv_step() {
                let ev = any_output::<$ty>();
                let mut inp = Scripted::new(ev);
                let mut s = any_ewma(rf(&mut inp));
                kani::assume(inv(&s));
                kani::assume(pre_ok(&s, &ev));
                let was_strong = inv_strong(&s);
                let _ = s.update();
                assert!(inv(&s));
                // the strong form is established by every event except an ignored absent one, which preserves it
                assert!(inv_strong(&s) || (matches!(ev, Ok(None)) && !was_strong));
                reach!();
            }
            pub fn fresh() {
                let ev = any_output::<$ty>();
                let mut inp = Scripted::new(ev);
                let mut s = any_ewma(rf(&mut inp));
                kani::assume(inv(&s));
                kani::assume(pre_ok(&s, &ev));
                let pre = snap(&s);
                let r = s.update();
                let g = s.get();
                assert!(nerr_of(&r) == err_of(&ev));
                assert!(err_of(&g) == err_of(&ev));
                match ev {
                    Err(_) => {}
                    Ok(None) => {
                        // absent: the cached value stays, except that a cached error becomes Ok(None)
                        if pre.value.is_err() { assert!(g.beq(&Ok(None))); } else { assert!(g.beq(&pre.value)); }
                    }
                    Ok(Some(d)) => {
                        assert!(time_of(&g) == Some(d.time));
                        assert!(s.update_time == Some(d.time));
                    }
                }
                assert!(feq(s.smoothing_constant, pre.smoothing_constant));
                assert!(inp.gets.get() == 1 && inp.updates == 0);
                reach!();
            }
            pub fn reset_error() {
                let ev: Output<$ty, Er> = Err(kani::any());
                let mut inp = Scripted::new(ev);
                let mut s = any_ewma(rf(&mut inp));
                kani::assume(inv(&s));
                let mut fresh = EWMAStream::<$ty, Scripted<$ty>, Er>::new(rf(&mut inp), s.smoothing_constant);
                let r1 = s.update();
                let r2 = fresh.update();
                assert!(r1.beq(&r2));
                assert!(snap_eq(&snap(&s), &snap(&fresh)));
                assert!(s.get().beq(&fresh.get()));
                reach!();
            }
            pub fn absent() {
                let mut inp = Scripted::<$ty>::new(Ok(None));
                let mut s = any_ewma(rf(&mut inp));
                kani::assume(inv(&s));
                let pre = snap(&s);
                let r = s.update();
                assert!(r.is_ok());
                if pre.value.is_err() {
                    // a cached error is cleared: the state is that of a new stream fed the same absent event
                    let mut fresh = EWMAStream::<$ty, Scripted<$ty>, Er>::new(rf(&mut inp), pre.smoothing_constant);
                    let r2 = fresh.update();
                    assert!(r2.is_ok());
                    assert!(snap_eq(&snap(&s), &snap(&fresh)));
                } else {
                    // ignored: state bit-unchanged
                    assert!(snap_eq(&snap(&s), &pre));
                }
                reach!();
            }
            pub fn get_pure() {
                let mut inp = Scripted::<$ty>::new(any_output());
                let s = any_ewma(rf(&mut inp));
                let pre = snap(&s);
                let g1 = s.get();
                let g2 = s.get();
                assert!(g1.beq(&g2) && g1.beq(&pre.value));
                assert!(snap_eq(&pre, &snap(&s)));
                assert!(inp.gets.get() == 0 && inp.updates == 0);
                reach!();
            }
        }
    };
}
fn units_any(_a: &Tok, _b: &Tok) -> bool { true }
fn units_same(a: &Quantity, b: &Quantity) -> bool { a.unit == b.unit }
ewma_bodies!(ewma_tok, Tok, units_any);
ewma_bodies!(ewma_qty, Quantity, units_same);

//@ob fn="EWMAStream::new" at=src/streams/control.rs:286 clause="generic impl at T=Tok (parametric payload): data invariant (value present => update_time stored; strong form: update_time == value.time, None otherwise) holds of new(); new() is (Ok(None), None) with the given smoothing constant"
#[kani::proof]
fn c05_ewma_tok_inv_new() {
    ewma_tok::inv_new();
}

//@ob fn="<EWMAStream<T,G,E> as Updatable>::update" at=src/streams/control.rs:321 clause="generic impl at T=Tok (parametric payload): data invariant inductive for every input event, so the expect('update_time must be Some if value is') cannot fail; strong form established by every non-ignored event and preserved by ignored ones (A7 on the time difference)"
#[kani::proof]
#[kani::stub(crate::enhanced_float::powf, stub_powf)]
fn c05_ewma_tok_inv_step() {
    ewma_tok::inv_step();
}

//@ob fn="<EWMAStream<T,G,E> as Updatable>::update" at=src/streams/control.rs:321 clause="generic impl at T=Tok (parametric payload): freshness from an arbitrary inv-state (cached error included): update returns Err(e) iff input Err(e); get() afterwards is Err(e) iff this update's input was Err(e); absent => cached value kept, a cached error becomes Ok(None); present d => Ok(Some) stamped d.time, update_time = d.time; input read once, never updated (A7)"
#[kani::proof]
#[kani::stub(crate::enhanced_float::powf, stub_powf)]
fn c05_ewma_tok_fresh() {
    ewma_tok::fresh();
}

//@ob fn="<EWMAStream<T,G,E> as Updatable>::update" at=src/streams/control.rs:321 clause="generic impl at T=Tok (parametric payload): reset on error: step(s, Err e) == step(new(same constant), Err e), every field bit-equal, arbitrary inv-state s, every e"
#[kani::proof]
fn c05_ewma_tok_reset_error() {
    ewma_tok::reset_error();
}

//@ob fn="<EWMAStream<T,G,E> as Updatable>::update" at=src/streams/control.rs:321 clause="generic impl at T=Tok (parametric payload): absent ignored: step(s, None) == s bit for bit when no error is cached; with a cached error step(s, None) == step(new(), None)"
#[kani::proof]
fn c05_ewma_tok_absent() {
    ewma_tok::absent();
}

//@ob fn="<EWMAStream<T,G,E> as Getter>::get" at=src/streams/control.rs:302 clause="generic impl at T=Tok (parametric payload): purity: get() returns the cached value, twice the same (bitwise), every field bit-unchanged, input not touched; arbitrary state"
#[kani::proof]
fn c05_ewma_tok_get_pure() {
    ewma_tok::get_pure();
}

//@ob fn="EWMAStream::new" at=src/streams/control.rs:286 clause="Quantity impl: data invariant (value present => update_time stored; strong form: update_time == value.time, None otherwise) holds of new(); new() is (Ok(None), None) with the given smoothing constant"
#[kani::proof]
fn c05_ewma_qty_inv_new() {
    ewma_qty::inv_new();
}

//@ob fn="<EWMAStream<Quantity,G,E> as Updatable>::update" at=src/streams/control.rs:362 clause="Quantity impl: data invariant inductive for every input event, so the expect('update_time must be Some if value is') cannot fail; strong form established by every non-ignored event and preserved by ignored ones (A7 on the time difference; input unit equals the cached value's unit)"
#[kani::proof]
#[kani::stub(crate::enhanced_float::powf, stub_powf)]
fn c05_ewma_qty_inv_step() {
    ewma_qty::inv_step();
}

//@ob fn="<EWMAStream<Quantity,G,E> as Updatable>::update" at=src/streams/control.rs:362 clause="Quantity impl: freshness from an arbitrary inv-state (cached error included): update returns Err(e) iff input Err(e); get() afterwards is Err(e) iff this update's input was Err(e); absent => cached value kept, a cached error becomes Ok(None); present d => Ok(Some) stamped d.time, update_time = d.time; input read once, never updated (A7; input unit equals the cached value's unit)"
#[kani::proof]
#[kani::stub(crate::enhanced_float::powf, stub_powf)]
fn c05_ewma_qty_fresh() {
    ewma_qty::fresh();
}

//@ob fn="<EWMAStream<Quantity,G,E> as Updatable>::update" at=src/streams/control.rs:362 clause="Quantity impl: reset on error: step(s, Err e) == step(new(same constant), Err e), every field bit-equal, arbitrary inv-state s, every e"
#[kani::proof]
fn c05_ewma_qty_reset_error() {
    ewma_qty::reset_error();
}

//@ob fn="<EWMAStream<Quantity,G,E> as Updatable>::update" at=src/streams/control.rs:362 clause="Quantity impl: absent ignored: step(s, None) == s bit for bit when no error is cached; with a cached error step(s, None) == step(new(), None)"
#[kani::proof]
fn c05_ewma_qty_absent() {
    ewma_qty::absent();
}

//@ob fn="<EWMAStream<Quantity,G,E> as Getter>::get" at=src/streams/control.rs:310 clause="Quantity impl: purity: get() returns the cached value, twice the same (bitwise), every field bit-unchanged, input not touched; arbitrary state"
#[kani::proof]
fn c05_ewma_qty_get_pure() {
    ewma_qty::get_pure();
}

