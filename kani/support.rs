//@host src/lib.rs
//@config *
// Shared support for the Kani harness modules. Compiled only under cfg(kani), as a private child
// module of the crate root of the scratch copy; nothing here exists in /repo.
#![allow(dead_code, unused_imports, unused_macros)]
use crate::*;
use core::cell::Cell;

/// Error payload used by every harness: any u8, so "two distinct error values" and more are covered.
pub type Er = u8;

/// Token payload: a free-algebra stand-in. Every operator is a cheap, injective-in-each-argument,
/// non-commutative, non-associative bit mix tagged by the operator, so a combinator instantiated at
/// `Tok` that produces the expected token has applied exactly that operator to exactly those operands in
/// that order (parametricity: the combinators are generic in T and cannot inspect it).
#[derive(Clone, Copy, Debug, PartialEq, Eq, Default)]
pub struct Tok(pub u32);
#[inline(always)]
pub fn mix(tag: u32, a: u32, b: u32) -> u32 {
    (a.rotate_left(5).wrapping_add(b.rotate_left(11)) ^ tag).rotate_left(3)
}
pub const T_ADD: u32 = 0x9E37_79B1;
pub const T_SUB: u32 = 0x85EB_CA77;
pub const T_MUL: u32 = 0xC2B2_AE3D;
pub const T_DIV: u32 = 0x27D4_EB2F;
pub const T_NEG: u32 = 0x1656_67B1;
pub const T_NOT: u32 = 0x7FEB_352D;
pub const T_MULF: u32 = 0x846C_A68B;
pub const T_DIVF: u32 = 0x9E6C_63D1;
impl Add for Tok { type Output = Tok; fn add(self, o: Tok) -> Tok { Tok(mix(T_ADD, self.0, o.0)) } }
impl Sub for Tok { type Output = Tok; fn sub(self, o: Tok) -> Tok { Tok(mix(T_SUB, self.0, o.0)) } }
impl Mul for Tok { type Output = Tok; fn mul(self, o: Tok) -> Tok { Tok(mix(T_MUL, self.0, o.0)) } }
impl Div for Tok { type Output = Tok; fn div(self, o: Tok) -> Tok { Tok(mix(T_DIV, self.0, o.0)) } }
impl Neg for Tok { type Output = Tok; fn neg(self) -> Tok { Tok(mix(T_NEG, self.0, 0)) } }
impl Not for Tok { type Output = Tok; fn not(self) -> Tok { Tok(mix(T_NOT, self.0, 0)) } }
impl AddAssign for Tok { fn add_assign(&mut self, o: Tok) { *self = *self + o; } }
impl SubAssign for Tok { fn sub_assign(&mut self, o: Tok) { *self = *self - o; } }
impl MulAssign for Tok { fn mul_assign(&mut self, o: Tok) { *self = *self * o; } }
impl DivAssign for Tok { fn div_assign(&mut self, o: Tok) { *self = *self / o; } }
impl Mul<f32> for Tok { type Output = Tok; fn mul(self, o: f32) -> Tok { Tok(mix(T_MULF, self.0, o.to_bits())) } }
impl Div<f32> for Tok { type Output = Tok; fn div(self, o: f32) -> Tok { Tok(mix(T_DIVF, self.0, o.to_bits())) } }
impl DivAssign<f32> for Tok { fn div_assign(&mut self, o: f32) { *self = *self / o; } }
impl kani::Arbitrary for Tok { fn any() -> Self { Tok(kani::any()) } }

impl kani::Arbitrary for Time { fn any() -> Self { Time(kani::any()) } }
impl kani::Arbitrary for DimensionlessInteger { fn any() -> Self { DimensionlessInteger(kani::any()) } }
/// A8: exponents are kept in [-64, 63] so that one multiplication or division of units cannot overflow `i8`
/// (the property quantifies to |60|); harnesses that chain operators restrict further.
impl kani::Arbitrary for Unit {
    fn any() -> Self {
        let m: i8 = kani::any();
        let s: i8 = kani::any();
        kani::assume(m >= -64 && m < 64 && s >= -64 && s < 64);
        Unit::new(m, s)
    }
}
impl kani::Arbitrary for Quantity { fn any() -> Self { Quantity::new(kani::any(), kani::any()) } }
impl kani::Arbitrary for State { fn any() -> Self { State::new_raw(kani::any(), kani::any(), kani::any()) } }
impl kani::Arbitrary for PositionDerivative {
    fn any() -> Self {
        let k: u8 = kani::any();
        kani::assume(k < 3);
        match k { 0 => PositionDerivative::Position, 1 => PositionDerivative::Velocity, _ => PositionDerivative::Acceleration }
    }
}
impl kani::Arbitrary for Command { fn any() -> Self { Command::new(kani::any(), kani::any()) } }
impl<T: kani::Arbitrary> kani::Arbitrary for Datum<T> { fn any() -> Self { Datum::new(kani::any(), kani::any()) } }
impl<E: kani::Arbitrary + Copy + Debug> kani::Arbitrary for Error<E> {
    fn any() -> Self { if kani::any() { Error::FromNone } else { Error::Other(kani::any()) } }
}
impl kani::Arbitrary for PIDKValues { fn any() -> Self { PIDKValues::new(kani::any(), kani::any(), kani::any()) } }
impl kani::Arbitrary for PositionDerivativeDependentPIDKValues {
    fn any() -> Self { PositionDerivativeDependentPIDKValues::new(kani::any(), kani::any(), kani::any()) }
}

/// Every outcome category an input can have: Err(FromNone), Err(Other(e)), Ok(None), Ok(Some(datum)).
pub fn any_output<T: kani::Arbitrary>() -> Output<T, Er> {
    let k: u8 = kani::any();
    kani::assume(k < 3);
    match k {
        0 => Err(kani::any()),
        1 => Ok(None),
        _ => Ok(Some(kani::any())),
    }
}
pub fn any_time_output() -> TimeOutput<Er> {
    if kani::any() { Err(kani::any()) } else { Ok(kani::any()) }
}

/// Input stream whose single output is fixed by the harness (assumption A10: pure between updates).
pub struct Scripted<T: Clone> {
    pub out: Output<T, Er>,
    pub gets: Cell<u32>,
    pub updates: u32,
    pub update_result: NothingOrError<Er>,
}
impl<T: Clone> Scripted<T> {
    pub fn new(out: Output<T, Er>) -> Self { Self { out: out, gets: Cell::new(0), updates: 0, update_result: Ok(()) } }
}
impl<T: Clone> Getter<T, Er> for Scripted<T> {
    fn get(&self) -> Output<T, Er> { self.gets.set(self.gets.get().wrapping_add(1)); self.out.clone() }
}
impl<T: Clone> Updatable<Er> for Scripted<T> {
    fn update(&mut self) -> NothingOrError<Er> { self.updates = self.updates.wrapping_add(1); self.update_result }
}
/// Scripted clock.
pub struct Clock { pub out: TimeOutput<Er>, pub gets: Cell<u32>, pub updates: u32 }
impl Clock { pub fn new(out: TimeOutput<Er>) -> Self { Self { out: out, gets: Cell::new(0), updates: 0 } } }
impl TimeGetter<Er> for Clock { fn get(&self) -> TimeOutput<Er> { self.gets.set(self.gets.get().wrapping_add(1)); self.out } }
impl Updatable<Er> for Clock { fn update(&mut self) -> NothingOrError<Er> { self.updates = self.updates.wrapping_add(1); Ok(()) } }

pub fn rf<T>(x: &mut T) -> Reference<T> { unsafe { Reference::from_ptr(x as *mut T) } }
pub fn rf_dyn<T: Clone + 'static>(x: &mut Scripted<T>) -> Reference<dyn Getter<T, Er>> {
    unsafe { Reference::from_ptr(x as *mut Scripted<T> as *mut dyn Getter<T, Er>) }
}

pub fn tmax(a: Time, b: Time) -> Time { if a.0 >= b.0 { a } else { b } }
/// Bit equality of f32 (NaN payloads and signed zeros distinguished).
pub fn feq(a: f32, b: f32) -> bool { a.to_bits() == b.to_bits() }
/// IEEE equality, or both NaN.
pub fn fsame(a: f32, b: f32) -> bool { a == b || (a.is_nan() && b.is_nan()) }
pub fn state_bits_eq(a: State, b: State) -> bool {
    feq(a.position, b.position) && feq(a.velocity, b.velocity) && feq(a.acceleration, b.acceleration)
}
pub fn command_bits_eq(a: Command, b: Command) -> bool {
    PositionDerivative::from(a) == PositionDerivative::from(b) && feq(f32::from(a), f32::from(b))
}

// ---- deterministic uninterpreted stand-ins for the crate's own f32-carrying operator impls (used with
// #[kani::stub]).  Anything proved with them holds for every interpretation of the operator, in particular
// the real one; the real operator's own contract is a separate obligation (C14).
pub fn fmix(tag: u32, a: f32, b: f32) -> f32 { f32::from_bits(mix(tag, a.to_bits(), b.to_bits())) }
pub fn stub_state_mul_f32(s: State, f: f32) -> State {
    State::new_raw(fmix(T_MULF, s.position, f), fmix(T_MULF ^ 1, s.velocity, f), fmix(T_MULF ^ 2, s.acceleration, f))
}
pub fn stub_state_div_f32(s: State, f: f32) -> State {
    State::new_raw(fmix(T_DIVF, s.position, f), fmix(T_DIVF ^ 1, s.velocity, f), fmix(T_DIVF ^ 2, s.acceleration, f))
}
pub fn stub_command_mul_f32(c: Command, f: f32) -> Command { Command::new(c.into(), fmix(T_MULF, c.into(), f)) }
pub fn stub_command_div_f32(c: Command, f: f32) -> Command { Command::new(c.into(), fmix(T_DIVF, c.into(), f)) }

/// Reachability marker: every harness ends with it; the driver requires the cover to be SATISFIED
/// (vacuity guard: assumptions are not contradictory and the call returns on some path).
macro_rules! reach {
    () => { kani::cover!(true, "reach-end"); };
}
pub(crate) use reach;

/// Unit equality that also compiles when unit checking is compiled out (`Unit` is then a field-less marker without
/// `PartialEq`): in such a build every unit "is" every other, which is what the crate's own `eq_assume_true` answers.
#[cfg(any(feature = "dim_check_release", all(debug_assertions, feature = "dim_check_debug")))]
pub fn ueq(a: Unit, b: Unit) -> bool { a == b }
#[cfg(not(any(feature = "dim_check_release", all(debug_assertions, feature = "dim_check_debug"))))]
pub fn ueq(_a: Unit, _b: Unit) -> bool { true }

// ------------------------------------------------------------------------------------------------
// Recording stand-ins for Quantity * Quantity and Quantity / Quantity (used with #[kani::stub]): each call returns
// an arbitrary value with the exact unit and records it in call order, so that a harness can state HOW the code
// combines the terms it computed (which product/quotient ends up where, what is added to what) with the real Quantity
// addition/subtraction, without re-deriving float products and quotients in the solver.  The formulas of the terms
// themselves are Verus obligations.
// ------------------------------------------------------------------------------------------------
pub static mut REC_DIV: [f32; 4] = [0.0; 4];
pub static mut REC_DIV_N: u8 = 0;
pub static mut REC_MUL: [f32; 4] = [0.0; 4];
pub static mut REC_MUL_N: u8 = 0;
pub fn rec_reset() {
    unsafe {
        REC_DIV_N = 0;
        REC_MUL_N = 0;
    }
}
pub fn rec_q_div(a: Quantity, b: Quantity) -> Quantity {
    let v: f32 = kani::any();
    unsafe {
        if REC_DIV_N < 4 {
            REC_DIV[REC_DIV_N as usize] = v;
        }
        if REC_DIV_N < 200 {
            REC_DIV_N += 1;
        }
    }
    Quantity::new(v, a.unit / b.unit)
}
pub fn rec_q_mul(a: Quantity, b: Quantity) -> Quantity {
    let v: f32 = kani::any();
    unsafe {
        if REC_MUL_N < 4 {
            REC_MUL[REC_MUL_N as usize] = v;
        }
        if REC_MUL_N < 200 {
            REC_MUL_N += 1;
        }
    }
    Quantity::new(v, a.unit * b.unit)
}
pub fn rec_div(k: usize) -> f32 { unsafe { REC_DIV[k] } }
pub fn rec_mul(k: usize) -> f32 { unsafe { REC_MUL[k] } }
pub fn rec_counts() -> (u8, u8) { unsafe { (REC_DIV_N, REC_MUL_N) } }

/// `v` is (bit-identical to, or NaN like) one of the recorded products / quotients: "the value is a term the code
/// computed", without fixing WHICH operator produced it last (so that a re-association such as (a+b)*dt/2 for
/// (a+b)/2*dt, which is the same formula, does not fail the obligation).
pub fn rec_any(v: f32) -> bool {
    let (nd, nm) = rec_counts();
    let mut k = 0;
    while k < 4 {
        if (k < nd as usize && fsame(v, rec_div(k))) || (k < nm as usize && fsame(v, rec_mul(k))) {
            return true;
        }
        k += 1;
    }
    false
}
/// `v` is `base + r` (one real f32 addition) for one of the recorded products / quotients `r`.
pub fn rec_any_plus(base: f32, v: f32) -> bool {
    let (nd, nm) = rec_counts();
    let mut k = 0;
    while k < 4 {
        if (k < nd as usize && (fsame(v, base + rec_div(k)) || fsame(v, rec_div(k) + base)))
            || (k < nm as usize && (fsame(v, base + rec_mul(k)) || fsame(v, rec_mul(k) + base)))
        {
            return true;
        }
        k += 1;
    }
    false
}
/// at most four of each were recorded (the arrays hold four): nothing the code computed is missing from the record
pub fn rec_complete() -> bool {
    let (nd, nm) = rec_counts();
    nd <= 4 && nm <= 4
}
