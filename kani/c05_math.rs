//@host src/streams/math.rs
//@config dev
// C05 one-step contracts of IntegralStream and DerivativeStream over an ARBITRARY pre-state (value and
// prev_output symbolic, no invariant assumed for the freshness / reset / purity clauses).
// History: on the original tree (4eac47a) `c05_integral_fresh_after_present` and
// `c05_derivative_fresh_after_present` were refuted (pre-state value = Err(e), prev_output = None, input Some(d):
// get() returned the stale Err(e)); repaired in /repo by a0388f7.
#![allow(unused_imports, dead_code)]
use super::*;
use crate::verif_c05_bits::*;
use crate::verif_support::*;
use crate::*;

macro_rules! bodies {
    ($m:ident, $stream:ident, $value_unit:expr) => {
        mod $m {
            use super::*;
            pub type St = $stream<Scripted<Quantity>, Er>;
            #[derive(Clone, Copy)]
            pub struct Snap {
                pub value: Output<Quantity, Er>,
                pub prev_output: Option<Datum<Quantity>>,
            }
            pub fn snap(s: &St) -> Snap { Snap { value: s.value, prev_output: s.prev_output } }
            pub fn snap_eq(a: &Snap, b: &Snap) -> bool { a.value.beq(&b.value) && a.prev_output.beq(&b.prev_output) }
            /// Arbitrary state: every private field symbolic.
            pub fn any_st(input: Reference<Scripted<Quantity>>) -> St {
                $stream { input: input, value: any_output(), prev_output: kani::any() }
            }
            /// Unit invariant for an input stream of constant unit `u` (dimensional homogeneity): the stored
            /// sample has unit u, a present value has the derived unit.  With it no unit assertion can fire.
            pub fn unit_inv(s: &St, u: Unit) -> bool {
                (match &s.prev_output { Some(p) => p.value.unit == u, None => true })
                    && (match &s.value { Ok(Some(v)) => v.value.unit == $value_unit(u), _ => true })
            }
            /// A7: the time difference to the stored sample does not overflow.
            pub fn a7(s: &St, ev: &Output<Quantity, Er>) -> bool {
                match (&s.prev_output, ev) {
                    (Some(p), Ok(Some(d))) => sub_ok(d.time, p.time),
                    _ => true,
                }
            }
            pub fn new_is_empty() {
                let mut inp = Scripted::<Quantity>::new(any_output());
                let s = $stream::<Scripted<Quantity>, Er>::new(rf(&mut inp));
                assert!(s.value.beq(&Ok(None)) && s.prev_output.is_none());
                let u: Unit = kani::any();
                assert!(unit_inv(&s, u) && err_inv(&s));
                assert!(s.get().beq(&Ok(None)));
                reach!();
            }
            pub fn unit_inv_step() {
                let ev = any_output::<Quantity>();
                let u: Unit = kani::any();
                if let Ok(Some(d)) = &ev { kani::assume(d.value.unit == u); }
                let mut inp = Scripted::new(ev);
                let mut s = any_st(rf(&mut inp));
                kani::assume(unit_inv(&s, u));
                kani::assume(a7(&s, &ev));
                let _ = s.update();
                assert!(unit_inv(&s, u));
                reach!();
            }
            /// A cached error never coexists with a stored sample (holds since the a0388f7 repair).
            pub fn err_inv(s: &St) -> bool { !(s.value.is_err() && s.prev_output.is_some()) }
            pub fn err_inv_step() {
                let ev = any_output::<Quantity>();
                let mut inp = Scripted::new(ev);
                let mut s = any_st(rf(&mut inp));
                let u: Unit = kani::any();
                if let Ok(Some(d)) = &ev { kani::assume(d.value.unit == u); }
                kani::assume(err_inv(&s) && unit_inv(&s, u) && a7(&s, &ev));
                let _ = s.update();
                assert!(err_inv(&s));
                reach!();
            }
            pub fn fresh_after_error() {
                let e: Error<Er> = kani::any();
                let mut inp = Scripted::<Quantity>::new(Err(e));
                let mut s = any_st(rf(&mut inp));
                let r = s.update();
                assert!(r == Err(e));
                assert!(s.get().beq(&Err(e)));
                assert!(inp.gets.get() == 1 && inp.updates == 0);
                reach!();
            }
            pub fn fresh_after_absent() {
                let mut inp = Scripted::<Quantity>::new(Ok(None));
                let mut s = any_st(rf(&mut inp));
                let r = s.update();
                assert!(r.is_ok());
                assert!(s.get().beq(&Ok(None)));
                assert!(inp.gets.get() == 1 && inp.updates == 0);
                reach!();
            }
            pub fn fresh_after_present() {
                let d: Datum<Quantity> = kani::any();
                let u = d.value.unit;
                let mut inp = Scripted::new(Ok(Some(d)));
                let mut s = any_st(rf(&mut inp));
                kani::assume(unit_inv(&s, u));
                kani::assume(a7(&s, &inp.out));
                let r = s.update();
                let g = s.get();
                assert!(r.is_ok());
                // the input of this update was not an error, so get() must not be one
                assert!(err_of(&g).is_none());
                reach!();
            }
            pub fn present_structure() {
                let d: Datum<Quantity> = kani::any();
                let u = d.value.unit;
                let mut inp = Scripted::new(Ok(Some(d)));
                let mut s = any_st(rf(&mut inp));
                kani::assume(unit_inv(&s, u));
                kani::assume(a7(&s, &inp.out));
                let pre = snap(&s);
                let r = s.update();
                assert!(r.is_ok());
                // the sample is stored verbatim
                assert!(s.prev_output.beq(&Some(d)));
                match pre.prev_output {
                    // first sample after a reset: nothing to integrate / differentiate yet, an absent value stays absent
                    None => if pre.value.beq(&Ok(None)) { assert!(s.value.beq(&Ok(None))); },
                    // otherwise a present value stamped with the sample's time
                    Some(_) => assert!(time_of(&s.value) == Some(d.time)),
                }
                assert!(inp.gets.get() == 1 && inp.updates == 0);
                reach!();
            }
            pub fn reset_check(ev: Output<Quantity, Er>) {
                let mut inp = Scripted::new(ev);
                let mut s = any_st(rf(&mut inp));
                let mut fresh = $stream::<Scripted<Quantity>, Er>::new(rf(&mut inp));
                let r1 = s.update();
                let r2 = fresh.update();
                assert!(r1.beq(&r2));
                assert!(snap_eq(&snap(&s), &snap(&fresh)));
                assert!(s.get().beq(&fresh.get()));
                reach!();
            }
            pub fn get_pure() {
                let mut inp = Scripted::<Quantity>::new(any_output());
                let s = any_st(rf(&mut inp));
                let pre = snap(&s);
                let g1 = s.get();
                let g2 = s.get();
                assert!(g1.beq(&g2) && g1.beq(&pre.value));
                assert!(snap_eq(&pre, &snap(&s)));
                assert!(inp.gets.get() == 0 && inp.updates == 0);
                reach!();
            }
        }
    };
}
fn integral_unit(u: Unit) -> Unit { SECOND * u }
fn derivative_unit(u: Unit) -> Unit { u / SECOND }
bodies!(integral, IntegralStream, integral_unit);
bodies!(derivative, DerivativeStream, derivative_unit);

// ---------------------------------------------------------------------------------------------- Integral
//@ob fn="IntegralStream::new" at=src/streams/math.rs:466 clause="new() is (Ok(None), no previous sample); get() of it is Ok(None); unit invariant holds"
#[kani::proof]
fn c05_integral_new() { integral::new_is_empty(); }

//@ob fn="<IntegralStream<G,E> as Updatable>::update" at=src/streams/math.rs:482 clause="unit invariant (stored sample has the input's unit u, present value has unit s*u) is inductive for inputs of constant unit, so no unit assertion fires; no panic (A7 on the time difference)"
#[kani::proof]
fn c05_integral_unit_inv_step() { integral::unit_inv_step(); }

//@ob fn="<IntegralStream<G,E> as Updatable>::update" at=src/streams/math.rs:482 clause="structural invariant 'a cached error never coexists with a stored previous sample' holds of new() (c05_integral_new) and is inductive for every input event (A7, constant input unit)"
#[kani::proof]
fn c05_integral_err_inv_step() { integral::err_inv_step(); }

//@ob fn="<IntegralStream<G,E> as Updatable>::update" at=src/streams/math.rs:486 clause="freshness, error event, arbitrary pre-state: update returns Err(e) and get() is Err(e), the same e"
#[kani::proof]
fn c05_integral_fresh_after_error() { integral::fresh_after_error(); }

//@ob fn="<IntegralStream<G,E> as Updatable>::update" at=src/streams/math.rs:494 clause="freshness, absent event, arbitrary pre-state (cached error included): update returns Ok and get() is Ok(None)"
#[kani::proof]
fn c05_integral_fresh_after_absent() { integral::fresh_after_absent(); }

//@ob fn="<IntegralStream<G,E> as Updatable>::update" at=src/streams/math.rs:500 also=rel_check clause="freshness, present event, arbitrary pre-state (cached error included): update returns Ok and get() is NOT an error, because this update's input was not an error (A7, constant input unit)"
#[kani::proof]
fn c05_integral_fresh_after_present() { integral::fresh_after_present(); }

//@ob fn="<IntegralStream<G,E> as Updatable>::update" at=src/streams/math.rs:500 also=rel_check clause="structure of a present sample: the sample is stored bit for bit as the previous sample; with no previous sample an absent value stays absent, otherwise the value is present and stamped with the sample's time; input read once (A7, constant input unit)"
#[kani::proof]
fn c05_integral_present_structure() { integral::present_structure(); }

//@ob fn="<IntegralStream<G,E> as Updatable>::update" at=src/streams/math.rs:494 clause="reset on absent: step(s, None) == step(new(), None), every field bit-equal, arbitrary s"
#[kani::proof]
fn c05_integral_reset_absent() { integral::reset_check(Ok(None)); }

//@ob fn="<IntegralStream<G,E> as Updatable>::update" at=src/streams/math.rs:486 clause="reset on error: step(s, Err e) == step(new(), Err e), every field bit-equal, arbitrary s, every e"
#[kani::proof]
fn c05_integral_reset_error() { integral::reset_check(Err(kani::any())); }

//@ob fn="<IntegralStream<G,E> as Getter>::get" at=src/streams/math.rs:477 clause="purity: get() returns the cached value, twice the same (bitwise), every field bit-unchanged, input not touched; arbitrary state"
#[kani::proof]
fn c05_integral_get_pure() { integral::get_pure(); }

// -------------------------------------------------------------------------------------------- Derivative
//@ob fn="DerivativeStream::new" at=src/streams/math.rs:406 clause="new() is (Ok(None), no previous sample); get() of it is Ok(None); unit invariant holds"
#[kani::proof]
fn c05_derivative_new() { derivative::new_is_empty(); }

//@ob fn="<DerivativeStream<G,E> as Updatable>::update" at=src/streams/math.rs:422 clause="unit invariant (stored sample has the input's unit u, present value has unit u/s) is inductive for inputs of constant unit, so no unit assertion fires; no panic (A7 on the time difference)"
#[kani::proof]
fn c05_derivative_unit_inv_step() { derivative::unit_inv_step(); }

//@ob fn="<DerivativeStream<G,E> as Updatable>::update" at=src/streams/math.rs:422 clause="structural invariant 'a cached error never coexists with a stored previous sample' holds of new() (c05_derivative_new) and is inductive for every input event (A7, constant input unit)"
#[kani::proof]
fn c05_derivative_err_inv_step() { derivative::err_inv_step(); }

//@ob fn="<DerivativeStream<G,E> as Updatable>::update" at=src/streams/math.rs:426 clause="freshness, error event, arbitrary pre-state: update returns Err(e) and get() is Err(e), the same e"
#[kani::proof]
fn c05_derivative_fresh_after_error() { derivative::fresh_after_error(); }

//@ob fn="<DerivativeStream<G,E> as Updatable>::update" at=src/streams/math.rs:434 clause="freshness, absent event, arbitrary pre-state (cached error included): update returns Ok and get() is Ok(None)"
#[kani::proof]
fn c05_derivative_fresh_after_absent() { derivative::fresh_after_absent(); }

//@ob fn="<DerivativeStream<G,E> as Updatable>::update" at=src/streams/math.rs:440 also=rel_check clause="freshness, present event, arbitrary pre-state (cached error included): update returns Ok and get() is NOT an error, because this update's input was not an error (A7, constant input unit)"
#[kani::proof]
fn c05_derivative_fresh_after_present() { derivative::fresh_after_present(); }

//@ob fn="<DerivativeStream<G,E> as Updatable>::update" at=src/streams/math.rs:440 also=rel_check clause="structure of a present sample: the sample is stored bit for bit as the previous sample; with no previous sample an absent value stays absent, otherwise the value is present and stamped with the sample's time; input read once (A7, constant input unit)"
#[kani::proof]
fn c05_derivative_present_structure() { derivative::present_structure(); }

//@ob fn="<DerivativeStream<G,E> as Updatable>::update" at=src/streams/math.rs:434 clause="reset on absent: step(s, None) == step(new(), None), every field bit-equal, arbitrary s"
#[kani::proof]
fn c05_derivative_reset_absent() { derivative::reset_check(Ok(None)); }

//@ob fn="<DerivativeStream<G,E> as Updatable>::update" at=src/streams/math.rs:426 clause="reset on error: step(s, Err e) == step(new(), Err e), every field bit-equal, arbitrary s, every e"
#[kani::proof]
fn c05_derivative_reset_error() { derivative::reset_check(Err(kani::any())); }

//@ob fn="<DerivativeStream<G,E> as Getter>::get" at=src/streams/math.rs:417 clause="purity: get() returns the cached value, twice the same (bitwise), every field bit-unchanged, input not touched; arbitrary state"
#[kani::proof]
fn c05_derivative_get_pure() { derivative::get_pure(); }
