//@host src/streams/converters.rs
//@config dev
// C02: `NoneToError`, `NoneToValue` (src/streams/converters.rs) and the two constant getters of src/lib.rs,
// `NoneGetter` and `ConstantGetter`.  Inputs: `Scripted<Tok>` / scripted `Clock`, outputs fully symbolic.
#![allow(unused_imports, dead_code)]
use super::*;
use crate::verif_support::*;
use crate::*;

type O = Output<Tok, Er>;

/// "A stream converting all Ok(None) values from its input to Err(_) variants" - the error is `Error::FromNone`
/// (doc of that variant); everything else passes through unchanged.
fn spec_none_to_error(input: O) -> O {
    match input {
        Err(e) => Err(e),
        Ok(None) => Err(Error::FromNone),
        Ok(Some(d)) => Ok(Some(d)),
    }
}
/// "A stream converting all Ok(None) values from its input to a default Ok(Some(_)) value": the default value is
/// stamped with the clock's current time; the clock is only needed (and its error only returned) in that case.
fn spec_none_to_value(input: O, now: TimeOutput<Er>, default: Tok) -> O {
    match input {
        Err(e) => Err(e),
        Ok(Some(d)) => Ok(Some(d)),
        Ok(None) => match now {
            Err(e) => Err(e),
            Ok(t) => Ok(Some(Datum::new(t, default))),
        },
    }
}
/// "Getter for returning a constant value", stamped with the clock's current time; a clock error is returned
/// unchanged.
fn spec_constant(now: TimeOutput<Er>, value: Tok) -> O {
    match now {
        Err(e) => Err(e),
        Ok(t) => Ok(Some(Datum::new(t, value))),
    }
}

//@ob fn="<NoneToError<T,G,E> as Getter<T,E>>::get" at=src/streams/converters.rs:24 prop=C02 clause="get()==spec: input error returned unchanged; absent => Err(Error::FromNone); present => the same datum (time and value); second get() equal, input unchanged"
#[kani::proof]
fn c02_none_to_error_spec() {
    let mut input = Scripted::<Tok>::new(any_output());
    let i0 = input.out;
    let stream = NoneToError::<Tok, Scripted<Tok>, Er>::new(rf(&mut input));
    let r1 = stream.get();
    assert!(r1 == spec_none_to_error(i0));
    let r2 = stream.get();
    assert!(r2 == r1);
    assert!(input.out == i0 && input.updates == 0);
    kani::cover!(i0 == Ok(None) && r1 == Err(Error::FromNone), "absent became FromNone");
    kani::cover!(matches!(r1, Err(Error::Other(_))), "custom error passed through");
    kani::cover!(matches!(r1, Ok(Some(_))), "present");
    reach!();
}

//@ob fn="<NoneToValue<T,G,TG,E> as Getter<T,E>>::get" at=src/streams/converters.rs:70 prop=C02 clause="get()==spec for every input category x clock category x default token: input error returned unchanged; present => the same datum whatever the clock says; absent => Some(Datum(now, default)), or the clock's error unchanged; second get() equal, inputs unchanged"
#[kani::proof]
fn c02_none_to_value_spec() {
    let mut input = Scripted::<Tok>::new(any_output());
    let mut clock = Clock::new(any_time_output());
    let default: Tok = kani::any();
    let (i0, c0) = (input.out, clock.out);
    let stream = NoneToValue::<Tok, Scripted<Tok>, Clock, Er>::new(rf(&mut input), rf(&mut clock), default);
    let r1 = stream.get();
    assert!(r1 == spec_none_to_value(i0, c0, default));
    let r2 = stream.get();
    assert!(r2 == r1);
    assert!(input.out == i0 && clock.out == c0 && input.updates == 0 && clock.updates == 0);
    kani::cover!(i0 == Ok(None) && matches!(r1, Ok(Some(_))), "absent replaced by the default");
    kani::cover!(i0 == Ok(None) && r1.is_err(), "absent and clock error");
    kani::cover!(matches!(i0, Ok(Some(_))) && c0.is_err() && r1 == i0, "present passes despite clock error");
    kani::cover!(i0.is_err(), "input error");
    reach!();
}

//@ob fn="<NoneGetter as Getter<T,E>>::get" at=src/lib.rs:482 prop=C02 clause="get() == Ok(None), for payload Tok and payload bool, repeatedly"
#[kani::proof]
fn c02_none_getter_spec() {
    let g = NoneGetter::new();
    let r1: Output<Tok, Er> = Getter::<Tok, Er>::get(&g);
    let r2: Output<Tok, Er> = Getter::<Tok, Er>::get(&g);
    let r3: Output<bool, Er> = Getter::<bool, Er>::get(&g);
    assert!(r1 == Ok(None));
    assert!(r2 == Ok(None));
    assert!(r3 == Ok(None));
    reach!();
}

//@ob fn="<ConstantGetter<T,TG,E> as Getter<T,E>>::get" at=src/lib.rs:444 prop=C02 clause="get()==spec for every clock category and value: clock error returned unchanged, otherwise Some(Datum(now, value)); second get() equal, clock unchanged"
#[kani::proof]
fn c02_constant_getter_spec() {
    let mut clock = Clock::new(any_time_output());
    let value: Tok = kani::any();
    let c0 = clock.out;
    let g = ConstantGetter::<Tok, Clock, Er>::new(rf(&mut clock), value);
    let r1 = g.get();
    assert!(r1 == spec_constant(c0, value));
    let r2 = g.get();
    assert!(r2 == r1);
    assert!(clock.out == c0 && clock.updates == 0);
    kani::cover!(r1.is_err(), "clock error");
    kani::cover!(matches!(r1, Ok(Some(_))), "present");
    reach!();
}
