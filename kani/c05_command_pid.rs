//@host src/streams/control.rs::command_pid
//@config dev,std_nocheck
// C05 one-step contracts of CommandPID over an ARBITRARY pre-state (Update0 / Update1 are private to the inline
// module `command_pid`, which hosts this module).  No data invariant is needed: the `unimplemented!()` arm of
// `get` is shown unreachable for every state.  Values of the PID formulas are C11's business (Verus); here only
// error freshness, reset-equivalence, frames, purity and the Some/None structure are asserted.
#![allow(unused_imports, dead_code)]
use super::*;
use crate::verif_c05_bits::*;
use crate::verif_support::*;
use crate::*;

type Cp = CommandPID<Scripted<State>, Er>;
type UpState = Result<Option<Update0>, Error<Er>>;

fn u1_eq(a: &Update1, b: &Update1) -> bool {
    a.output_int.beq(&b.output_int) && a.error_int.beq(&b.error_int) && a.output_int_int.beq(&b.output_int_int)
}
fn u0_eq(a: &Update0, b: &Update0) -> bool {
    a.time.beq(&b.time)
        && a.output.beq(&b.output)
        && a.error.beq(&b.error)
        && match (&a.maybe_update_1, &b.maybe_update_1) {
            (None, None) => true,
            (Some(x), Some(y)) => u1_eq(x, y),
            _ => false,
        }
}
fn up_eq(a: &UpState, b: &UpState) -> bool {
    match (a, b) {
        (Err(x), Err(y)) => x.beq(y),
        (Ok(None), Ok(None)) => true,
        (Ok(Some(x)), Ok(Some(y))) => u0_eq(x, y),
        _ => false,
    }
}
fn any_u1() -> Update1 {
    Update1 { output_int: kani::any(), error_int: kani::any(), output_int_int: kani::any() }
}
fn any_u0() -> Update0 {
    Update0 {
        time: kani::any(),
        output: kani::any(),
        error: kani::any(),
        maybe_update_1: if kani::any() { Some(any_u1()) } else { None },
    }
}
fn any_up() -> UpState {
    let k: u8 = kani::any();
    kani::assume(k < 3);
    match k {
        0 => Err(kani::any()),
        1 => Ok(None),
        _ => Ok(Some(any_u0())),
    }
}
/// 0 = Err, 1 = Ok(None), 2 = one sample, 3 = two samples, 4 = three or more samples.
fn depth(u: &UpState) -> u8 {
    match u {
        Err(_) => 0,
        Ok(None) => 1,
        Ok(Some(u0)) => match &u0.maybe_update_1 {
            None => 2,
            Some(u1) => if u1.output_int_int.is_none() { 3 } else { 4 },
        },
    }
}
/// Arbitrary CommandPID that follows nothing: every private field symbolic.
fn any_cp(input: Reference<Scripted<State>>) -> Cp {
    CommandPID {
        settable_data: SettableData { following: None, last_request: kani::any() },
        input: input,
        command: kani::any(),
        kvals: kani::any(),
        update_state: any_up(),
    }
}
struct Snap {
    following: Option<*const ()>,
    last_request: Option<Command>,
    command: Command,
    kvals: PositionDerivativeDependentPIDKValues,
    update_state: UpState,
}
fn snap(s: &Cp) -> Snap {
    Snap {
        following: match &s.settable_data.following { None => None, Some(r) => ref_addr(r) },
        last_request: s.settable_data.last_request,
        command: s.command,
        kvals: s.kvals,
        update_state: s.update_state.clone(),
    }
}
fn frame_eq(a: &Snap, b: &Snap) -> bool {
    a.following == b.following && a.last_request.beq(&b.last_request) && a.command.beq(&b.command) && a.kvals.beq(&b.kvals)
}
fn snap_eq(a: &Snap, b: &Snap) -> bool {
    frame_eq(a, b) && up_eq(&a.update_state, &b.update_state)
}
/// A7: the time difference to the stored sample does not overflow.
fn a7(s: &Cp, ev: &Output<State, Er>) -> bool {
    match (&s.update_state, ev) {
        (Ok(Some(u0)), Ok(Some(d))) => sub_ok(d.time, u0.time),
        _ => true,
    }
}

//@ob fn="CommandPID::new" at=src/streams/control.rs:109 clause="new() is (update_state Ok(None), following nothing, no last request) with the given command and k-values; get() of it is Ok(None)"
#[kani::proof]
fn c05_cpid_new() {
    let mut inp = Scripted::<State>::new(any_output());
    let c: Command = kani::any();
    let kv: PositionDerivativeDependentPIDKValues = kani::any();
    let s = CommandPID::<Scripted<State>, Er>::new(rf(&mut inp), c, kv);
    assert!(up_eq(&s.update_state, &Ok(None)));
    assert!(s.settable_data.following.is_none() && s.settable_data.last_request.is_none());
    assert!(s.command.beq(&c) && s.kvals.beq(&kv));
    assert!(s.get().beq(&Ok(None)));
    reach!();
}

//@ob fn="<CommandPID<G,E> as Updatable>::update" at=src/streams/control.rs:175 also=rel_check clause="freshness from an arbitrary state not following a getter (cached error included): update returns Err(e) iff the input returned Err(e); get() afterwards is Err(e) iff this update's input was Err(e); absent => Ok(None); present d => stored sample stamped d.time and any present get() stamped d.time; command, k-values, settable data unchanged; input read once (A7)"
#[kani::proof]
fn c05_cpid_fresh() {
    let ev = any_output::<State>();
    let mut inp = Scripted::new(ev);
    let mut s = any_cp(rf(&mut inp));
    kani::assume(a7(&s, &ev));
    let pre = snap(&s);
    let r = s.update();
    let g = s.get();
    assert!(nerr_of(&r) == err_of(&ev));
    assert!(err_of(&g) == err_of(&ev));
    match ev {
        Err(e) => assert!(up_eq(&s.update_state, &Err(e))),
        Ok(None) => {
            assert!(up_eq(&s.update_state, &Ok(None)));
            assert!(g.beq(&Ok(None)));
        }
        Ok(Some(d)) => {
            assert!(matches!(&s.update_state, Ok(Some(u0)) if u0.time == d.time));
            assert!(matches!(g, Ok(None)) || time_of(&g) == Some(d.time));
        }
    }
    assert!(frame_eq(&pre, &snap(&s)));
    assert!(inp.gets.get() == 1 && inp.updates == 0);
    reach!();
}

//@ob fn="<CommandPID<G,E> as Updatable>::update" at=src/streams/control.rs:189 also=rel_check clause="structure of a present sample: after an error or a reset the sample starts afresh (one stored sample, no integrals); otherwise the number of stored integration levels grows by one up to three; get() is present iff enough levels exist for the command's derivative (position: 1, velocity: 2, acceleration: 3) (A7)"
#[kani::proof]
fn c05_cpid_present_structure() {
    let d: Datum<State> = kani::any();
    let mut inp = Scripted::new(Ok(Some(d)));
    let mut s = any_cp(rf(&mut inp));
    kani::assume(a7(&s, &inp.out));
    let d0 = depth(&s.update_state);
    let r = s.update();
    assert!(r.is_ok());
    let d1 = depth(&s.update_state);
    let want = match d0 { 0 | 1 => 2, 2 => 3, _ => 4 };
    assert!(d1 == want);
    let need = match PositionDerivative::from(s.command) {
        PositionDerivative::Position => 2,
        PositionDerivative::Velocity => 3,
        PositionDerivative::Acceleration => 4,
    };
    let g = s.get();
    assert!((cat_of(&g) == 2) == (d1 >= need));
    assert!(cat_of(&g) != 0);
    reach!();
}

fn reset_check(ev: Output<State, Er>) {
    let mut inp = Scripted::new(ev);
    let mut s = any_cp(rf(&mut inp));
    let pre = snap(&s);
    let mut fresh = CommandPID::<Scripted<State>, Er>::new(rf(&mut inp), s.command, s.kvals);
    let r1 = s.update();
    let r2 = fresh.update();
    assert!(r1.beq(&r2));
    // history memory and parameters equal those of the fresh stream; the settable bookkeeping (not input
    // history) is untouched on both sides
    assert!(up_eq(&s.update_state, &fresh.update_state));
    assert!(s.command.beq(&fresh.command) && s.kvals.beq(&fresh.kvals));
    assert!(frame_eq(&pre, &snap(&s)));
    assert!(fresh.settable_data.following.is_none() && fresh.settable_data.last_request.is_none());
    assert!(s.get().beq(&fresh.get()));
    reach!();
}

//@ob fn="<CommandPID<G,E> as Updatable>::update" at=src/streams/control.rs:180 clause="reset on absent: step(s, None) == step(new(same command, k-values), None): update_state, command, k-values bit-equal, get() equal; settable bookkeeping untouched; arbitrary state s"
#[kani::proof]
fn c05_cpid_reset_absent() {
    reset_check(Ok(None));
}

//@ob fn="<CommandPID<G,E> as Updatable>::update" at=src/streams/control.rs:184 clause="error is cached and erases history: step(s, Err e) == step(new(same command, k-values), Err e) bit for bit, so the next present sample starts afresh; arbitrary state s, every e"
#[kani::proof]
fn c05_cpid_reset_error() {
    reset_check(Err(kani::any()));
}

//@ob fn="<CommandPID<G,E> as Updatable>::update" at=src/streams/control.rs:192 clause="first present sample after a cached error or a reset has the structure of the first sample of a new stream: one stored sample stamped d.time, no integration levels, get() of the same category and timestamp as that of new() fed d (bit-equality of the values follows from c05_cpid_reset_error + determinism; the float formula itself is C11)"
#[kani::proof]
fn c05_cpid_present_after_error_is_fresh() {
    let d: Datum<State> = kani::any();
    let mut inp = Scripted::new(Ok(Some(d)));
    let mut s = any_cp(rf(&mut inp));
    kani::assume(matches!(s.update_state, Err(_) | Ok(None)));
    let mut fresh = CommandPID::<Scripted<State>, Er>::new(rf(&mut inp), s.command, s.kvals);
    let r1 = s.update();
    let r2 = fresh.update();
    assert!(r1.is_ok() && r2.is_ok());
    assert!(depth(&s.update_state) == 2 && depth(&fresh.update_state) == 2);
    assert!(matches!((&s.update_state, &fresh.update_state), (Ok(Some(a)), Ok(Some(b))) if a.time == b.time && a.time == d.time));
    assert!(cat_of(&s.get()) == cat_of(&fresh.get()) && time_of(&s.get()) == time_of(&fresh.get()));
    reach!();
}

//@ob fn="<CommandPID<G,E> as Getter>::get" at=src/streams/control.rs:147 clause="purity and no panic: for EVERY state (all update_state shapes x all commands) get() does not reach unimplemented!(), returns the same value twice (bitwise), leaves every field bit-unchanged and does not touch the input; Err state => that error, Ok(None) state => Ok(None)"
#[kani::proof]
fn c05_cpid_get_pure() {
    let mut inp = Scripted::<State>::new(any_output());
    let s = any_cp(rf(&mut inp));
    let pre = snap(&s);
    let g1 = s.get();
    let g2 = s.get();
    assert!(g1.beq(&g2));
    assert!(snap_eq(&pre, &snap(&s)));
    match &pre.update_state {
        Err(e) => assert!(g1.beq(&Err(*e))),
        Ok(None) => assert!(g1.beq(&Ok(None))),
        Ok(Some(u0)) => assert!(matches!(g1, Ok(None)) || time_of(&g1) == Some(u0.time)),
    }
    assert!(inp.gets.get() == 0 && inp.updates == 0);
    reach!();
}

//@ob fn="<CommandPID<G,E> as Updatable>::update" at=src/streams/control.rs:176 clause="while following a getter that returns Err(e), update returns Err(e) before reading the input and leaves every field bit-unchanged (the input is not read: freshness is relative to updates that read the input)"
#[kani::proof]
fn c05_cpid_follow_error_frame() {
    let ev = any_output::<State>();
    let mut inp = Scripted::new(ev);
    let fe: Error<Er> = kani::any();
    let mut fol = Scripted::<Command>::new(Err(fe));
    let mut s = any_cp(rf(&mut inp));
    s.settable_data.following = Some(rf_dyn(&mut fol));
    let pre = snap(&s);
    let r = s.update();
    assert!(r == Err(fe));
    assert!(snap_eq(&pre, &snap(&s)));
    assert!(inp.gets.get() == 0 && fol.gets.get() == 1);
    reach!();
}

//@ob fn="<CommandPID<G,E> as Updatable>::update" at=src/streams/control.rs:176 clause="while following a getter that is absent, update behaves exactly as when following nothing: same result, same update_state, command unchanged (error and absent input events)"
#[kani::proof]
fn c05_cpid_follow_absent_same() {
    let ev = any_output::<State>();
    let mut inp = Scripted::new(ev);
    let mut fol = Scripted::<Command>::new(Ok(None));
    let mut s = any_cp(rf(&mut inp));
    // error and absent input events only: the present-sample formulas are compared by C11
    kani::assume(!matches!(ev, Ok(Some(_))));
    let mut t = CommandPID {
        settable_data: SettableData { following: None, last_request: s.settable_data.last_request },
        input: rf(&mut inp),
        command: s.command,
        kvals: s.kvals,
        update_state: s.update_state.clone(),
    };
    s.settable_data.following = Some(rf_dyn(&mut fol));
    let r1 = s.update();
    let r2 = t.update();
    assert!(r1.beq(&r2));
    assert!(up_eq(&s.update_state, &t.update_state));
    assert!(s.command.beq(&t.command) && s.settable_data.last_request.beq(&t.settable_data.last_request));
    assert!(s.settable_data.following.is_some());
    reach!();
}

// ------------------------------------------------------------------------------------------------
// C11: the public `set` / followed-command path on the real struct (Settable's provided methods included), so that the
// "equal command changes nothing / different command restarts" clause does not depend on which stored value the
// implementation compares with (the Verus unit c11_cpid covers `impl_set` alone, against `self.command`).
// ------------------------------------------------------------------------------------------------

/// The meaning of "equal commands", written out independently of the crate's `PartialEq for Command`: same kind and
/// IEEE-equal payloads (what the derive generates).  Used instead of `==` so that a changed `eq` cannot move both the
/// code and the expectation.
fn cmd_same(a: Command, b: Command) -> bool {
    match (a, b) {
        (Command::Position(x), Command::Position(y)) => x == y,
        (Command::Velocity(x), Command::Velocity(y)) => x == y,
        (Command::Acceleration(x), Command::Acceleration(y)) => x == y,
        _ => false,
    }
}

//@ob fn="<CommandPID<G,E> as Settable<Command,E>>::set" at=src/streams/control.rs:138 prop=C11 clause="set(c) through the public trait method on an ARBITRARY state (any last request, any history): c == current command (derived ==) leaves command and the whole update_state bit-unchanged; c != current stores c and restarts (update_state Ok(None)); always Ok, records c as the last request, does not touch following or the k-values, reads no input"
#[kani::proof]
fn c11_cpid_set_equal_noop_different_restarts() {
    let mut inp = Scripted::new(any_output::<State>());
    let mut s = any_cp(rf(&mut inp));
    let pre = snap(&s);
    let c: Command = kani::any();
    let same = cmd_same(c, pre.command);
    let r = s.set(c);
    assert!(r == Ok(()));
    let post = snap(&s);
    if same {
        assert!(post.command.beq(&pre.command));
        assert!(up_eq(&post.update_state, &pre.update_state));
    } else {
        assert!(post.command.beq(&c));
        assert!(up_eq(&post.update_state, &Ok(None)));
    }
    assert!(post.last_request.beq(&Some(c)));
    assert!(post.following == pre.following && post.kvals.beq(&pre.kvals));
    assert!(inp.gets.get() == 0 && inp.updates == 0);
    reach!();
}

//@ob fn="<CommandPID<G,E> as Updatable>::update" at=src/streams/control.rs:176 prop=C11 clause="following a getter that presently yields command c: update behaves exactly like set(c) followed by an update that follows nothing -- c == current: no restart, the same step as if nothing were followed; c != current: the step of a restarted controller holding c (error and absent input events; the present-sample formulas of the step are the Verus obligation)"
#[kani::proof]
fn c11_cpid_follow_present_is_set_then_step() {
    let ev = any_output::<State>();
    kani::assume(!matches!(ev, Ok(Some(_))));
    let mut inp = Scripted::new(ev);
    let c: Command = kani::any();
    let ft: Time = kani::any();
    let mut fol = Scripted::<Command>::new(Ok(Some(Datum::new(ft, c))));
    let mut s = any_cp(rf(&mut inp));
    let same = cmd_same(c, s.command);
    let mut t = CommandPID {
        settable_data: SettableData { following: None, last_request: Some(c) },
        input: rf(&mut inp),
        command: if same { s.command } else { c },
        kvals: s.kvals,
        update_state: if same { s.update_state.clone() } else { Ok(None) },
    };
    s.settable_data.following = Some(rf_dyn(&mut fol));
    let r1 = s.update();
    let r2 = t.update();
    assert!(r1.beq(&r2));
    assert!(up_eq(&s.update_state, &t.update_state));
    assert!(s.command.beq(&t.command) && s.settable_data.last_request.beq(&Some(c)));
    assert!(s.settable_data.following.is_some() && s.kvals.beq(&t.kvals));
    reach!();
}

//@ob fn="<CommandPID<G,E> as Updatable>::update" at=src/streams/control.rs:176 prop=C11 clause="following a getter that yields the CURRENT command while samples are present: the stored history is not restarted -- the number of stored integration levels grows exactly as when nothing is followed (depth 1->2->3->4->4), the stored sample takes the new time, command unchanged"
#[kani::proof]
fn c11_cpid_follow_equal_keeps_history() {
    let d: Datum<State> = kani::any();
    let mut inp = Scripted::new(Ok(Some(d)));
    let mut s = any_cp(rf(&mut inp));
    kani::assume(a7(&s, &Ok(Some(d))));
    let c: Command = kani::any();
    kani::assume(cmd_same(c, s.command));
    let mut fol = Scripted::<Command>::new(Ok(Some(Datum::new(kani::any(), c))));
    s.settable_data.following = Some(rf_dyn(&mut fol));
    let pre_cmd = s.command;
    let d0 = depth(&s.update_state);
    let r = s.update();
    assert!(r == Ok(()));
    let d1 = depth(&s.update_state);
    assert!(d1 == if d0 <= 1 { 2 } else if d0 >= 4 { 4 } else { d0 + 1 });
    match &s.update_state {
        Ok(Some(u0)) => assert!(u0.time == d.time),
        _ => assert!(false),
    }
    assert!(s.command.beq(&pre_cmd));
    reach!();
}
