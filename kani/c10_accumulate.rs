//@host src/streams/math.rs
//@config dev,std_nocheck
// C10, the part of the integral / derivative recurrences that must hold in EVERY build configuration and that the
// Verus units (default features only) cannot see in the others: how the freshly computed term enters the cached
// value.  Quantity multiplication and division are replaced by recording stand-ins (the formula of the term itself is
// the Verus obligation c10_int_der / c10_int_der_ideal); the final `term + running sum` is the crate's real Quantity
// addition, one f32 addition.  Runs with unit checking compiled in (dev) and compiled out (std_nocheck): a guard or
// shortcut written with the crate's cfg-dependent unit predicates behaves differently in the two.
#![allow(unused_imports, dead_code)]
use super::*;
use crate::verif_c05_bits::*;
use crate::verif_support::*;
use crate::*;

static mut LAST_DIV: f32 = 0.0;
static mut N_DIV: u8 = 0;
/// Stand-in for Quantity / Quantity: an arbitrary value (recorded), exact unit.
fn rec_q_div(a: Quantity, b: Quantity) -> Quantity {
    let v: f32 = kani::any();
    unsafe {
        LAST_DIV = v;
        N_DIV = if N_DIV < 200 { N_DIV + 1 } else { N_DIV };
    }
    Quantity::new(v, a.unit / b.unit)
}
/// Stand-in for Quantity * Quantity: an arbitrary value, exact unit.
fn havoc_q_mul(a: Quantity, b: Quantity) -> Quantity {
    Quantity::new(kani::any(), a.unit * b.unit)
}

//@ob fn="<IntegralStream<G,E> as Updatable>::update" at=src/streams/math.rs:511 clause="a present sample after a previous sample and a present running sum: the new value is (this interval's term) + (running sum) -- one real Quantity addition of the term the code computed (the result of its single division) and the cached value, bit-identical -- stamped with the sample's time; in every configuration (unit checking compiled in with a constant input unit, or compiled out)"
#[kani::proof]
#[kani::stub(<Quantity as Mul<Quantity>>::mul, havoc_q_mul)]
#[kani::stub(<Quantity as Div<Quantity>>::div, rec_q_div)]
fn c10_integral_accumulates_running_sum() {
    let d: Datum<Quantity> = kani::any();
    let p: Datum<Quantity> = kani::any();
    let sum: Datum<Quantity> = kani::any();
    // dimensional homogeneity of the history (vacuous when units are compiled out)
    kani::assume(ueq(p.value.unit, d.value.unit) && ueq(sum.value.unit, SECOND * d.value.unit));
    kani::assume(sub_ok(d.time, p.time));
    let mut inp = Scripted::new(Ok(Some(d)));
    let mut s = IntegralStream { input: rf(&mut inp), value: Ok(Some(sum)), prev_output: Some(p) };
    unsafe { N_DIV = 0; }
    let r = s.update();
    assert!(r == Ok(()));
    assert!(unsafe { N_DIV } == 1);
    let term = unsafe { LAST_DIV };
    match s.value {
        Ok(Some(v)) => {
            assert!(v.time == d.time);
            assert!(fsame(v.value.value, term + sum.value.value));
        }
        _ => assert!(false),
    }
    assert!(s.prev_output.beq(&Some(d)));
    reach!();
}

//@ob fn="<IntegralStream<G,E> as Updatable>::update" at=src/streams/math.rs:511 clause="a present sample after a previous sample but WITHOUT a running sum (second sample since the reset): the new value is this interval's term alone (the result of the code's single division), stamped with the sample's time; every configuration"
#[kani::proof]
#[kani::stub(<Quantity as Mul<Quantity>>::mul, havoc_q_mul)]
#[kani::stub(<Quantity as Div<Quantity>>::div, rec_q_div)]
fn c10_integral_second_sample_is_the_term() {
    let d: Datum<Quantity> = kani::any();
    let p: Datum<Quantity> = kani::any();
    kani::assume(ueq(p.value.unit, d.value.unit));
    kani::assume(sub_ok(d.time, p.time));
    let mut inp = Scripted::new(Ok(Some(d)));
    let mut s = IntegralStream { input: rf(&mut inp), value: Ok(None), prev_output: Some(p) };
    unsafe { N_DIV = 0; }
    let r = s.update();
    assert!(r == Ok(()));
    assert!(unsafe { N_DIV } == 1);
    let term = unsafe { LAST_DIV };
    match s.value {
        Ok(Some(v)) => assert!(v.time == d.time && fsame(v.value.value, term)),
        _ => assert!(false),
    }
    reach!();
}

//@ob fn="<DerivativeStream<G,E> as Updatable>::update" at=src/streams/math.rs:451 clause="a present sample after a previous sample: the new value is the quotient the code computed from the last two samples (the result of its single division, whatever the cached value was), stamped with the sample's time; the sample becomes the previous one; every configuration"
#[kani::proof]
#[kani::stub(<Quantity as Div<Quantity>>::div, rec_q_div)]
fn c10_derivative_value_is_the_last_quotient() {
    let d: Datum<Quantity> = kani::any();
    let p: Datum<Quantity> = kani::any();
    kani::assume(ueq(p.value.unit, d.value.unit));
    kani::assume(sub_ok(d.time, p.time));
    let mut inp = Scripted::new(Ok(Some(d)));
    let mut s = DerivativeStream { input: rf(&mut inp), value: any_output(), prev_output: Some(p) };
    unsafe { N_DIV = 0; }
    let r = s.update();
    assert!(r == Ok(()));
    assert!(unsafe { N_DIV } == 1);
    let q = unsafe { LAST_DIV };
    match s.value {
        Ok(Some(v)) => assert!(v.time == d.time && fsame(v.value.value, q)),
        _ => assert!(false),
    }
    assert!(s.prev_output.beq(&Some(d)));
    reach!();
}
