//@host src/streams/math.rs
//@config dev,std_nocheck
// C10, the part of the integral / derivative recurrences that must hold in EVERY build configuration and that the
// Verus units (default features only) cannot see in the others: how the freshly computed term enters the cached
// value.  Quantity multiplication and division are replaced by recording stand-ins (the formula of the term itself is
// the Verus obligation c10_int_der / c10_int_der_ideal); the final `term + running sum` is the crate's real Quantity
// addition, one f32 addition.  Runs with unit checking compiled in (dev) and compiled out (std_nocheck): a guard or
// shortcut written with the crate's cfg-dependent unit predicates behaves differently in the two.
#![allow(unused_imports, dead_code)]
use super::*;
use crate::verif_c05_bits::*;
use crate::verif_support::*;
use crate::*;

//@ob fn="<IntegralStream<G,E> as Updatable>::update" at=src/streams/math.rs:511 clause="a present sample after a previous sample and a present running sum: the new value is (this interval's term) + (running sum) -- one real Quantity addition of a term the code computed (one of its products/quotients; which operator produced it last is not fixed, so a re-association of the same formula passes) and the cached value, bit-identical -- stamped with the sample's time; in every configuration (unit checking compiled in with a constant input unit, or compiled out)"
#[kani::proof]
#[kani::stub(<Quantity as Mul<Quantity>>::mul, rec_q_mul)]
#[kani::stub(<Quantity as Div<Quantity>>::div, rec_q_div)]
fn c10_integral_accumulates_running_sum() {
    let d: Datum<Quantity> = kani::any();
    let p: Datum<Quantity> = kani::any();
    let sum: Datum<Quantity> = kani::any();
    // dimensional homogeneity of the history (vacuous when units are compiled out)
    kani::assume(ueq(p.value.unit, d.value.unit) && ueq(sum.value.unit, SECOND * d.value.unit));
    kani::assume(sub_ok(d.time, p.time));
    let mut inp = Scripted::new(Ok(Some(d)));
    let mut s = IntegralStream { input: rf(&mut inp), value: Ok(Some(sum)), prev_output: Some(p) };
    rec_reset();
    let r = s.update();
    assert!(r == Ok(()));
    assert!(rec_complete());
    match s.value {
        Ok(Some(v)) => {
            assert!(v.time == d.time);
            assert!(rec_any_plus(sum.value.value, v.value.value));
        }
        _ => assert!(false),
    }
    assert!(s.prev_output.beq(&Some(d)));
    reach!();
}

//@ob fn="<IntegralStream<G,E> as Updatable>::update" at=src/streams/math.rs:511 clause="a present sample after a previous sample but WITHOUT a running sum (second sample since the reset): the new value is this interval's term alone (one of the products/quotients the code computed), stamped with the sample's time; every configuration"
#[kani::proof]
#[kani::stub(<Quantity as Mul<Quantity>>::mul, rec_q_mul)]
#[kani::stub(<Quantity as Div<Quantity>>::div, rec_q_div)]
fn c10_integral_second_sample_is_the_term() {
    let d: Datum<Quantity> = kani::any();
    let p: Datum<Quantity> = kani::any();
    kani::assume(ueq(p.value.unit, d.value.unit));
    kani::assume(sub_ok(d.time, p.time));
    let mut inp = Scripted::new(Ok(Some(d)));
    let mut s = IntegralStream { input: rf(&mut inp), value: Ok(None), prev_output: Some(p) };
    rec_reset();
    let r = s.update();
    assert!(r == Ok(()));
    assert!(rec_complete());
    match s.value {
        Ok(Some(v)) => assert!(v.time == d.time && rec_any(v.value.value)),
        _ => assert!(false),
    }
    reach!();
}

//@ob fn="<DerivativeStream<G,E> as Updatable>::update" at=src/streams/math.rs:451 clause="a present sample after a previous sample: the new value is a quotient/product the code computed from the last two samples (whatever the cached value was), stamped with the sample's time; the sample becomes the previous one; every configuration"
#[kani::proof]
#[kani::stub(<Quantity as Div<Quantity>>::div, rec_q_div)]
fn c10_derivative_value_is_the_last_quotient() {
    let d: Datum<Quantity> = kani::any();
    let p: Datum<Quantity> = kani::any();
    kani::assume(ueq(p.value.unit, d.value.unit));
    kani::assume(sub_ok(d.time, p.time));
    let mut inp = Scripted::new(Ok(Some(d)));
    let mut s = DerivativeStream { input: rf(&mut inp), value: any_output(), prev_output: Some(p) };
    rec_reset();
    let r = s.update();
    assert!(r == Ok(()));
    assert!(rec_complete());
    match s.value {
        Ok(Some(v)) => assert!(v.time == d.time && rec_any(v.value.value)),
        _ => assert!(false),
    }
    assert!(s.prev_output.beq(&Some(d)));
    reach!();
}
