//@host src/devices.rs
//@config dev
// C16, second sentence -- REFUTATION WITNESSES (witness=1: expected to FAIL on the unchanged tree; they exhibit the
// known finding that the property text itself announces and are not counted as obligations).
//
// "No program written without the opt-out keyword can obtain a reference that outlives the object it points to" is a
// type-soundness statement over all programs; no function contract expresses it.  What can be done is to refute it:
// each harness below is an ordinary borrow-checked program (this file does not contain the opt-out keyword anywhere,
// and uses nothing from the support module except the error type and the reach marker) that
//   1. creates a device / wrapper,
//   2. takes the `&'a RefCell<Terminal<'a, E>>` that the accessor hands out ('a is NOT tied to `&self`),
//   3. lets the device die (end of its scope),
//   4. uses the reference through the public API (`borrow()` + `Getter<Command, _>::get`).
// rustc accepts every one of them; Kani reports the dereference of a dead object in step 4.
#![allow(unused_imports, dead_code)]
use crate::devices::*;
use crate::verif_support::{reach, Er};
use crate::*;

/// Step 4: a safe, public-API use of the terminal reference.
fn use_terminal(r: &RefCell<Terminal<'_, Er>>) -> bool {
    let out: Output<Command, Er> = r.borrow().get();
    matches!(out, Ok(None))
}

// ---- minimal inner implementors for the three wrappers -------------------------------------------------------
struct NullActuator {
    sd: SettableData<TerminalData, Er>,
}
impl NullActuator {
    fn new() -> Self {
        Self { sd: SettableData::new() }
    }
}
impl Settable<TerminalData, Er> for NullActuator {
    fn impl_set(&mut self, _v: TerminalData) -> NothingOrError<Er> {
        Ok(())
    }
    fn get_settable_data_ref(&self) -> &SettableData<TerminalData, Er> {
        &self.sd
    }
    fn get_settable_data_mut(&mut self) -> &mut SettableData<TerminalData, Er> {
        &mut self.sd
    }
}
impl Updatable<Er> for NullActuator {
    fn update(&mut self) -> NothingOrError<Er> {
        Ok(())
    }
}
struct NullEncoder;
impl Getter<State, Er> for NullEncoder {
    fn get(&self) -> Output<State, Er> {
        Ok(None)
    }
}
impl Updatable<Er> for NullEncoder {
    fn update(&mut self) -> NothingOrError<Er> {
        Ok(())
    }
}
struct NullMotor {
    sd: SettableData<f32, Er>,
}
impl NullMotor {
    fn new() -> Self {
        Self { sd: SettableData::new() }
    }
}
impl Settable<f32, Er> for NullMotor {
    fn impl_set(&mut self, _v: f32) -> NothingOrError<Er> {
        Ok(())
    }
    fn get_settable_data_ref(&self) -> &SettableData<f32, Er> {
        &self.sd
    }
    fn get_settable_data_mut(&mut self) -> &mut SettableData<f32, Er> {
        &mut self.sd
    }
}
impl Updatable<Er> for NullMotor {
    fn update(&mut self) -> NothingOrError<Er> {
        Ok(())
    }
}
fn new_pid_wrapper<'a>() -> wrappers::PIDWrapper<'a, NullMotor, Er> {
    wrappers::PIDWrapper::new(
        NullMotor::new(),
        Time(0),
        State::new_raw(0.0, 0.0, 0.0),
        Command::new(PositionDerivative::Position, 0.0),
        PositionDerivativeDependentPIDKValues::new(
            PIDKValues::new(1.0, 0.0, 0.0),
            PIDKValues::new(1.0, 0.0, 0.0),
            PIDKValues::new(1.0, 0.0, 0.0),
        ),
    )
}

/// Stack variant: the device lives in an inner scope that ends before the reference is used.
macro_rules! dangle_stack {
    ($name:ident, $mk:expr, $acc:ident $(, $arg:expr)?) => {
        #[kani::proof]
        fn $name() {
            let r;
            {
                let dev = $mk;
                r = dev.$acc($($arg)?);
            }
            let _ = use_terminal(r);
            reach!();
        }
    };
}
//@ob witness=1 fn="Invert::get_terminal_1" at=src/devices.rs:25 clause="WITNESS (expected to fail): safe program obtains the terminal reference, the Invert goes out of scope, the reference is used: dereference of a dead object"
dangle_stack!(c16_dangle_invert_get_terminal_1, Invert::<Er>::new(), get_terminal_1);
//@ob witness=1 fn="Invert::get_terminal_2" at=src/devices.rs:33 clause="WITNESS (expected to fail): safe program obtains the terminal reference, the Invert goes out of scope, the reference is used: dereference of a dead object"
dangle_stack!(c16_dangle_invert_get_terminal_2, Invert::<Er>::new(), get_terminal_2);
//@ob witness=1 fn="GearTrain::get_terminal_1" at=src/devices.rs:144 clause="WITNESS (expected to fail): safe program obtains the terminal reference, the GearTrain goes out of scope, the reference is used: dereference of a dead object"
dangle_stack!(c16_dangle_gear_train_get_terminal_1, GearTrain::<Er>::with_ratio_raw(2.0), get_terminal_1);
//@ob witness=1 fn="GearTrain::get_terminal_2" at=src/devices.rs:148 clause="WITNESS (expected to fail): safe program obtains the terminal reference, the GearTrain goes out of scope, the reference is used: dereference of a dead object"
dangle_stack!(c16_dangle_gear_train_get_terminal_2, GearTrain::<Er>::with_ratio_raw(2.0), get_terminal_2);
//@ob witness=1 fn="Axle::get_terminal" at=src/devices.rs:271 clause="WITNESS (expected to fail): safe program obtains the terminal reference, the Axle goes out of scope, the reference is used: dereference of a dead object"
dangle_stack!(c16_dangle_axle_get_terminal, Axle::<2, Er>::new(), get_terminal, 1);
//@ob witness=1 fn="Differential::get_side_1" at=src/devices.rs:360 clause="WITNESS (expected to fail): safe program obtains the terminal reference, the Differential goes out of scope, the reference is used: dereference of a dead object"
dangle_stack!(c16_dangle_differential_get_side_1, Differential::<Er>::new(), get_side_1);
//@ob witness=1 fn="Differential::get_side_2" at=src/devices.rs:364 clause="WITNESS (expected to fail): safe program obtains the terminal reference, the Differential goes out of scope, the reference is used: dereference of a dead object"
dangle_stack!(c16_dangle_differential_get_side_2, Differential::<Er>::new(), get_side_2);
//@ob witness=1 fn="Differential::get_sum" at=src/devices.rs:368 clause="WITNESS (expected to fail): safe program obtains the terminal reference, the Differential goes out of scope, the reference is used: dereference of a dead object"
dangle_stack!(c16_dangle_differential_get_sum, Differential::<Er>::new(), get_sum);
//@ob witness=1 fn="ActuatorWrapper::get_terminal" at=src/devices/wrappers.rs:21 clause="WITNESS (expected to fail): safe program obtains the terminal reference, the ActuatorWrapper goes out of scope, the reference is used: dereference of a dead object"
dangle_stack!(c16_dangle_actuator_wrapper_get_terminal, wrappers::ActuatorWrapper::<NullActuator, Er>::new(NullActuator::new()), get_terminal);
//@ob witness=1 fn="GetterStateDeviceWrapper::get_terminal" at=src/devices/wrappers.rs:61 clause="WITNESS (expected to fail): safe program obtains the terminal reference, the GetterStateDeviceWrapper goes out of scope, the reference is used: dereference of a dead object"
dangle_stack!(c16_dangle_getter_state_device_wrapper_get_terminal, wrappers::GetterStateDeviceWrapper::<NullEncoder, Er>::new(NullEncoder), get_terminal);
// PIDWrapper::new allocates Rc<RefCell<..>> objects larger than CBMC's default field-sensitivity limit; without the
// extra CBMC argument symbolic execution of the constructor does not finish.
//@ob witness=1 cbmc="--max-field-sensitivity-array-size 1024" fn="PIDWrapper::get_terminal" at=src/devices/wrappers.rs:131 clause="WITNESS (expected to fail): safe program obtains the terminal reference, the PIDWrapper goes out of scope, the reference is used: dereference of a dead object"
dangle_stack!(c16_dangle_pid_wrapper_get_terminal, new_pid_wrapper(), get_terminal);
