//@host src/reference.rs
//@config dev
// C17 -- a Reference, its clones and its to_dyn! conversion all denote one shared object (sequential part).
//
// Private child of `reference`: reads the private field `Reference.0`.
//
// Shape of the argument.  `denote(r)` (spec function below, written from the variant documentation, not from
// borrow/clone) maps a Reference to (variant tag, address of the container, address of the target datum).
// One-step contracts, each for a symbolic target value:
//   clone      : denote(r.clone()) == denote(r)           (Rc/Arc: strong count +1, -1 again on drop)
//   borrow     : Deref of r.borrow() is the datum at denote(r).data, guard kind matches the variant
//   borrow_mut : Deref/DerefMut of r.borrow_mut() is the datum at denote(r).data
//   into_inner / From : the wrapped enum is returned unchanged
// By induction over any finite sequence of clone / borrow / borrow_mut / drop every clone of one original
// has the same denotation, every borrow of every clone is the same address, hence a write through any clone
// is read through every other: "one-step contracts => any clone/borrow sequence" (the property quantifies to
// length 12).  In addition the three-handle alias harnesses check the write/read statement directly
// (symbolic choice of the writer, clone of a clone, second write through a different handle).
//
// Raw-pointer variants (Ptr, PtrRwLock, PtrMutex): the target is a `static` or a local that outlives every
// handle -- the documented `unsafe` obligation of from_ptr*/A11; the liveness clause is proved for Rc/Arc only
// and for the `static_*reference!` macros (whose targets are statics).
// Not decided here: the concurrent-threads clause (Kani is sequential, A6).
#![allow(unused_imports, dead_code, unused_unsafe)]
use crate::*;
use crate::verif_support::*;
use crate::reference::{Borrow, BorrowMut, ReferenceUnsafe};

#[derive(Clone, Copy, Debug, PartialEq, Eq)]
struct P {
    a: u32,
    b: u8,
}
impl kani::Arbitrary for P {
    fn any() -> Self {
        P { a: kani::any(), b: kani::any() }
    }
}

const V_PTR: u8 = 0;
const V_RC: u8 = 1;
const V_PTR_RW: u8 = 2;
const V_PTR_MX: u8 = 3;
const V_ARC_RW: u8 = 4;
const V_ARC_MX: u8 = 5;

/// SPEC: what a Reference denotes: (variant, address of the container the variant documents, address of the datum).
/// Must not be called while a guard of the same Reference is alive (Mutex/RwLock/RefCell are not re-entrant).
fn denote<T: ?Sized>(r: &Reference<T>) -> (u8, *const (), *const ()) {
    denote_unsafe(&r.0)
}
fn denote_unsafe<T: ?Sized>(r: &ReferenceUnsafe<T>) -> (u8, *const (), *const ()) {
    match r {
        ReferenceUnsafe::Ptr(p) => (V_PTR, *p as *const (), *p as *const ()),
        ReferenceUnsafe::RcRefCell(rc) => (V_RC, Rc::as_ptr(rc) as *const (), rc.as_ptr() as *const ()),
        ReferenceUnsafe::PtrRwLock(p) => (V_PTR_RW, *p as *const (), unsafe {
            &*(**p).read().unwrap() as *const T as *const ()
        }),
        ReferenceUnsafe::PtrMutex(p) => (V_PTR_MX, *p as *const (), unsafe {
            &*(**p).lock().unwrap() as *const T as *const ()
        }),
        ReferenceUnsafe::ArcRwLock(a) => {
            (V_ARC_RW, Arc::as_ptr(a) as *const (), &*a.read().unwrap() as *const T as *const ())
        }
        ReferenceUnsafe::ArcMutex(a) => {
            (V_ARC_MX, Arc::as_ptr(a) as *const (), &*a.lock().unwrap() as *const T as *const ())
        }
    }
}
fn borrow_kind<T: ?Sized>(b: &Borrow<'_, T>) -> u8 {
    match b {
        Borrow::Ptr(..) => 0,
        Borrow::RefCellRef(..) => 1,
        Borrow::RwLockReadGuard(..) => 2,
        Borrow::MutexGuard(..) => 3,
    }
}
fn borrow_mut_kind<T: ?Sized>(b: &BorrowMut<'_, T>) -> u8 {
    match b {
        BorrowMut::Ptr(..) => 0,
        BorrowMut::RefCellRefMut(..) => 1,
        BorrowMut::RwLockWriteGuard(..) => 2,
        BorrowMut::MutexGuard(..) => 3,
    }
}
/// SPEC: which guard kind the variant documents.
fn kind_of_variant(v: u8) -> u8 {
    match v {
        V_PTR => 0,
        V_RC => 1,
        V_PTR_RW | V_ARC_RW => 2,
        _ => 3,
    }
}

fn pick<'a>(i: u8, r0: &'a Reference<P>, c1: &'a Reference<P>, c2: &'a Reference<P>) -> &'a Reference<P> {
    match i {
        0 => r0,
        1 => c1,
        _ => c2,
    }
}

/// (i) three handles (original, clone, clone of the clone): whole-value write through a symbolic one is read
/// through all; field write (DerefMut) through a different symbolic one is read through all; dropping a handle
/// changes nothing for the others.
fn alias_contract(r0: Reference<P>, v0: P, variant: u8) {
    let c1 = r0.clone();
    let c2 = c1.clone();
    assert!(denote(&r0).0 == variant && denote(&c1).0 == variant && denote(&c2).0 == variant);
    assert!(*r0.borrow() == v0 && *c1.borrow() == v0 && *c2.borrow() == v0);
    let w: u8 = kani::any();
    kani::assume(w < 3);
    let x: P = kani::any();
    {
        let mut g = pick(w, &r0, &c1, &c2).borrow_mut();
        *g = x;
        assert!(*g == x);
    }
    assert!(*r0.borrow() == x);
    assert!(*c1.borrow() == x);
    assert!(*c2.borrow() == x);
    let w2: u8 = kani::any();
    kani::assume(w2 < 3 && w2 != w);
    let y: u32 = kani::any();
    {
        let mut g = pick(w2, &r0, &c1, &c2).borrow_mut();
        g.a = y;
    }
    let want = P { a: y, b: x.b };
    assert!(*r0.borrow() == want);
    assert!(*c1.borrow() == want);
    assert!(*c2.borrow() == want);
    // dropping one handle (the middle one, from which c2 was cloned) leaves the others on the same object
    drop(c1);
    let z: u8 = kani::any();
    c2.borrow_mut().b = z;
    assert!(*r0.borrow() == P { a: y, b: z });
    drop(r0);
    assert!(*c2.borrow() == P { a: y, b: z });
}

/// (ii)+(v) clone keeps the denotation; borrow / borrow_mut deref to the denoted datum with the documented guard.
fn clone_borrow_contract(r: &Reference<P>, variant: u8, container: *const (), v0: P) {
    let d = denote(r);
    assert!(d.0 == variant);
    assert!(d.1 == container);
    let c = r.clone();
    assert!(denote(&c) == d);
    let cu = r.0.clone(); // <ReferenceUnsafe as Clone>::clone directly
    assert!(denote_unsafe(&cu) == d);
    {
        let b = c.borrow();
        assert!(borrow_kind(&b) == kind_of_variant(variant));
        let t: &P = &*b;
        assert!(t as *const P as *const () == d.2);
        assert!(*t == v0);
    }
    let x: P = kani::any();
    {
        let mut bm = r.borrow_mut();
        assert!(borrow_mut_kind(&bm) == kind_of_variant(variant));
        assert!(&*bm as *const P as *const () == d.2);
        let t: &mut P = &mut *bm;
        assert!(t as *mut P as *const () == d.2);
        *t = x;
    }
    {
        // ReferenceUnsafe::borrow / borrow_mut (the unsafe layer) agree with the safe wrapper
        let b = unsafe { cu.borrow() };
        assert!(&*b as *const P as *const () == d.2 && *b == x);
    }
    {
        let mut bm = unsafe { cu.borrow_mut() };
        assert!(&mut *bm as *mut P as *const () == d.2);
    }
    // the denotation is not changed by borrowing
    assert!(denote(r) == d && denote(&c) == d);
}

// ------------------------------------------------------------------ Ptr
//@ob fn="Reference::clone / borrow / borrow_mut (Ptr)" at=src/reference.rs:160 clause="Ptr: a write through any of three handles (original, clone, clone of clone; writer symbolic) is read through all; target = local outliving all handles (documented unsafe obligation of from_ptr)"
#[kani::proof]
fn c17_ptr_alias() {
    let v0: P = kani::any();
    let mut target = v0;
    let r0 = unsafe { Reference::from_ptr(&mut target as *mut P) };
    alias_contract(r0, v0, V_PTR);
    reach!();
}
//@ob fn="<ReferenceUnsafe<T> as Clone>::clone, borrow, borrow_mut, Deref, DerefMut (Ptr)" at=src/reference.rs:236 clause="Ptr: clone is the same variant with the same pointer; Borrow::Ptr/BorrowMut::Ptr deref to exactly the pointee"
#[kani::proof]
fn c17_ptr_clone_borrow() {
    let v0: P = kani::any();
    let mut target = v0;
    let p = &mut target as *mut P;
    let r = unsafe { Reference::from_ptr(p) };
    clone_borrow_contract(&r, V_PTR, p as *const (), v0);
    assert!(denote(&r).2 == p as *const ());
    reach!();
}
//@ob fn="Reference::into_inner, From<Reference> for ReferenceUnsafe, from_ptr" at=src/reference.rs:305 clause="Ptr: from_ptr wraps exactly the pointer; into_inner and From return the wrapped enum unchanged"
#[kani::proof]
fn c17_ptr_into_inner() {
    let mut target: P = kani::any();
    let p = &mut target as *mut P;
    let r = unsafe { Reference::from_ptr(p) };
    let c = r.clone();
    match r.into_inner() {
        ReferenceUnsafe::Ptr(q) => assert!(q == p),
        _ => assert!(false),
    }
    match ReferenceUnsafe::from(c) {
        ReferenceUnsafe::Ptr(q) => assert!(q == p),
        _ => assert!(false),
    }
    match unsafe { ReferenceUnsafe::from_ptr(p) } {
        ReferenceUnsafe::Ptr(q) => assert!(q == p),
        _ => assert!(false),
    }
    reach!();
}
//@ob fn="static_reference!" at=src/reference.rs:437 clause="static_reference!: Ptr variant to a static holding the initial value; clones alias it; target alive after the original handle is dropped (static)"
#[kani::proof]
fn c17_static_reference_macro() {
    let r = static_reference!(P, P { a: 7, b: 9 });
    assert!(denote(&r).0 == V_PTR);
    assert!(*r.borrow() == P { a: 7, b: 9 });
    let c = r.clone();
    drop(r);
    let x: P = kani::any();
    *c.borrow_mut() = x;
    let c2 = c.clone();
    drop(c);
    assert!(*c2.borrow() == x);
    reach!();
}

// ------------------------------------------------------------------ RcRefCell
//@ob fn="Reference::clone / borrow / borrow_mut (RcRefCell)" at=src/reference.rs:164 clause="RcRefCell: a write through any of three handles is read through all (rc_ref_cell_reference target)"
#[kani::proof]
fn c17_rc_alias() {
    let v0: P = kani::any();
    alias_contract(rc_ref_cell_reference(v0), v0, V_RC);
    reach!();
}
//@ob fn="<ReferenceUnsafe<T> as Clone>::clone, borrow, borrow_mut, Deref, DerefMut (RcRefCell)" at=src/reference.rs:238 clause="RcRefCell: clone is the same variant on the same allocation; Ref/RefMut deref to the cell's datum"
#[kani::proof]
fn c17_rc_clone_borrow() {
    let v0: P = kani::any();
    let rc = Rc::new(RefCell::new(v0));
    let container = Rc::as_ptr(&rc) as *const ();
    let r = Reference::from_rc_ref_cell(rc);
    clone_borrow_contract(&r, V_RC, container, v0);
    reach!();
}
//@ob fn="<ReferenceUnsafe<T> as Clone>::clone, into_inner, From (RcRefCell)" at=src/reference.rs:238 clause="RcRefCell: from_rc_ref_cell moves the Rc (count unchanged); clone bumps the strong count by exactly one, drop releases it; into_inner/From return the same Rc"
#[kani::proof]
fn c17_rc_count_into_inner() {
    let v0: P = kani::any();
    let rc = Rc::new(RefCell::new(v0));
    let keep = rc.clone();
    assert!(Rc::strong_count(&keep) == 2);
    let r = Reference::from_rc_ref_cell(rc);
    assert!(Rc::strong_count(&keep) == 2);
    let c = r.clone();
    assert!(Rc::strong_count(&keep) == 3);
    let c2 = c.clone();
    assert!(Rc::strong_count(&keep) == 4);
    drop(c2);
    assert!(Rc::strong_count(&keep) == 3);
    match r.into_inner() {
        ReferenceUnsafe::RcRefCell(got) => {
            assert!(Rc::ptr_eq(&got, &keep));
            assert!(Rc::strong_count(&got) == 3);
        }
        _ => assert!(false),
    }
    assert!(Rc::strong_count(&keep) == 2);
    match ReferenceUnsafe::from(c) {
        ReferenceUnsafe::RcRefCell(got) => {
            assert!(Rc::ptr_eq(&got, &keep));
            assert!(Rc::strong_count(&got) == 2);
        }
        _ => assert!(false),
    }
    assert!(Rc::strong_count(&keep) == 1 && Rc::weak_count(&keep) == 0);
    assert!(*keep.borrow() == v0);
    reach!();
}

/// Payload whose destruction is observable.
struct D {
    v: u32,
    drops: *mut u32,
}
impl Drop for D {
    fn drop(&mut self) {
        unsafe { *self.drops += 1 }
    }
}
/// (iii) the original is created in an inner scope, cloned out and dropped; the clone still reads and writes the
/// live target (Kani's pointer checks: no dead-object access); the target is destroyed exactly once, and only
/// when the last handle goes.
macro_rules! lifetime_harness {
    ($name:ident, $ctor:ident) => {
        #[kani::proof]
        fn $name() {
            let mut drops = 0u32;
            let dp = &mut drops as *mut u32;
            let v0: u32 = kani::any();
            let c;
            {
                let r0 = $ctor(D { v: v0, drops: dp });
                c = r0.clone();
            }
            assert!(unsafe { *dp } == 0);
            assert!(c.borrow().v == v0);
            let x: u32 = kani::any();
            c.borrow_mut().v = x;
            assert!(c.borrow().v == x);
            let c2 = c.clone();
            drop(c);
            assert!(unsafe { *dp } == 0);
            assert!(c2.borrow().v == x);
            let y: u32 = kani::any();
            c2.borrow_mut().v = y;
            assert!(c2.borrow().v == y);
            drop(c2);
            assert!(unsafe { *dp } == 1);
            reach!();
        }
    };
}
//@ob fn="rc_ref_cell_reference / Clone / Drop (RcRefCell)" at=src/reference.rs:425 prop=C17,C16 clause="RcRefCell: target stays alive (no dead-object access, not destroyed) while any clone exists after the original is dropped; destroyed exactly once with the last clone"
lifetime_harness!(c17_rc_lifetime, rc_ref_cell_reference);

// ------------------------------------------------------------------ PtrRwLock
//@ob fn="Reference::clone / borrow / borrow_mut (PtrRwLock)" at=src/reference.rs:166 clause="PtrRwLock: a write through any of three handles is read through all; lock = local outliving all handles (documented unsafe obligation)"
#[kani::proof]
fn c17_ptr_rw_lock_alias() {
    let v0: P = kani::any();
    let lock = RwLock::new(v0);
    let r0 = unsafe { Reference::from_ptr_rw_lock(&lock as *const RwLock<P>) };
    alias_contract(r0, v0, V_PTR_RW);
    assert!(!lock.is_poisoned());
    reach!();
}
//@ob fn="<ReferenceUnsafe<T> as Clone>::clone, borrow, borrow_mut, Deref, DerefMut (PtrRwLock)" at=src/reference.rs:240 clause="PtrRwLock: clone is the same variant with the same lock pointer; read/write guards deref to the lock's datum; guards are released when the borrow is dropped"
#[kani::proof]
fn c17_ptr_rw_lock_clone_borrow() {
    let v0: P = kani::any();
    let lock = RwLock::new(v0);
    let p = &lock as *const RwLock<P>;
    let r = unsafe { Reference::from_ptr_rw_lock(p) };
    clone_borrow_contract(&r, V_PTR_RW, p as *const (), v0);
    assert!(lock.try_write().is_ok()); // every guard taken by borrow/borrow_mut has been released
    reach!();
}
//@ob fn="Reference::into_inner, From, from_ptr_rw_lock" at=src/reference.rs:305 clause="PtrRwLock: from_ptr_rw_lock wraps exactly the pointer; into_inner and From return it unchanged"
#[kani::proof]
fn c17_ptr_rw_lock_into_inner() {
    let lock = RwLock::new(kani::any::<P>());
    let p = &lock as *const RwLock<P>;
    let r = unsafe { Reference::from_ptr_rw_lock(p) };
    let c = r.clone();
    match r.into_inner() {
        ReferenceUnsafe::PtrRwLock(q) => assert!(q == p),
        _ => assert!(false),
    }
    match ReferenceUnsafe::from(c) {
        ReferenceUnsafe::PtrRwLock(q) => assert!(q == p),
        _ => assert!(false),
    }
    match unsafe { ReferenceUnsafe::from_ptr_rw_lock(p) } {
        ReferenceUnsafe::PtrRwLock(q) => assert!(q == p),
        _ => assert!(false),
    }
    reach!();
}
//@ob fn="static_rw_lock_reference!" at=src/reference.rs:452 clause="static_rw_lock_reference!: PtrRwLock variant to a static lock holding the initial value; clones alias it; alive after the original handle is dropped"
#[kani::proof]
fn c17_static_rw_lock_reference_macro() {
    let r = static_rw_lock_reference!(P, P { a: 7, b: 9 });
    assert!(denote(&r).0 == V_PTR_RW);
    assert!(*r.borrow() == P { a: 7, b: 9 });
    let c = r.clone();
    drop(r);
    let x: P = kani::any();
    *c.borrow_mut() = x;
    let c2 = c.clone();
    drop(c);
    assert!(*c2.borrow() == x);
    reach!();
}

// ------------------------------------------------------------------ PtrMutex
//@ob fn="Reference::clone / borrow / borrow_mut (PtrMutex)" at=src/reference.rs:174 clause="PtrMutex: a write through any of three handles is read through all; mutex = local outliving all handles (documented unsafe obligation)"
#[kani::proof]
fn c17_ptr_mutex_alias() {
    let v0: P = kani::any();
    let m = Mutex::new(v0);
    let r0 = unsafe { Reference::from_ptr_mutex(&m as *const Mutex<P>) };
    alias_contract(r0, v0, V_PTR_MX);
    assert!(!m.is_poisoned());
    reach!();
}
//@ob fn="<ReferenceUnsafe<T> as Clone>::clone, borrow, borrow_mut, Deref, DerefMut (PtrMutex)" at=src/reference.rs:242 clause="PtrMutex: clone is the same variant with the same mutex pointer; guards deref to the mutex's datum and are released when the borrow is dropped"
#[kani::proof]
fn c17_ptr_mutex_clone_borrow() {
    let v0: P = kani::any();
    let m = Mutex::new(v0);
    let p = &m as *const Mutex<P>;
    let r = unsafe { Reference::from_ptr_mutex(p) };
    clone_borrow_contract(&r, V_PTR_MX, p as *const (), v0);
    assert!(m.try_lock().is_ok());
    reach!();
}
//@ob fn="Reference::into_inner, From, from_ptr_mutex" at=src/reference.rs:305 clause="PtrMutex: from_ptr_mutex wraps exactly the pointer; into_inner and From return it unchanged"
#[kani::proof]
fn c17_ptr_mutex_into_inner() {
    let m = Mutex::new(kani::any::<P>());
    let p = &m as *const Mutex<P>;
    let r = unsafe { Reference::from_ptr_mutex(p) };
    let c = r.clone();
    match r.into_inner() {
        ReferenceUnsafe::PtrMutex(q) => assert!(q == p),
        _ => assert!(false),
    }
    match ReferenceUnsafe::from(c) {
        ReferenceUnsafe::PtrMutex(q) => assert!(q == p),
        _ => assert!(false),
    }
    match unsafe { ReferenceUnsafe::from_ptr_mutex(p) } {
        ReferenceUnsafe::PtrMutex(q) => assert!(q == p),
        _ => assert!(false),
    }
    reach!();
}
//@ob fn="static_mutex_reference!" at=src/reference.rs:468 clause="static_mutex_reference!: PtrMutex variant to a static mutex holding the initial value; clones alias it; alive after the original handle is dropped"
#[kani::proof]
fn c17_static_mutex_reference_macro() {
    let r = static_mutex_reference!(P, P { a: 7, b: 9 });
    assert!(denote(&r).0 == V_PTR_MX);
    assert!(*r.borrow() == P { a: 7, b: 9 });
    let c = r.clone();
    drop(r);
    let x: P = kani::any();
    *c.borrow_mut() = x;
    let c2 = c.clone();
    drop(c);
    assert!(*c2.borrow() == x);
    reach!();
}

// ------------------------------------------------------------------ ArcRwLock
//@ob fn="Reference::clone / borrow / borrow_mut (ArcRwLock)" at=src/reference.rs:182 clause="ArcRwLock: a write through any of three handles is read through all (arc_rw_lock_reference target), sequentially"
#[kani::proof]
fn c17_arc_rw_lock_alias() {
    let v0: P = kani::any();
    alias_contract(arc_rw_lock_reference(v0), v0, V_ARC_RW);
    reach!();
}
//@ob fn="<ReferenceUnsafe<T> as Clone>::clone, borrow, borrow_mut, Deref, DerefMut (ArcRwLock)" at=src/reference.rs:244 clause="ArcRwLock: clone is the same variant on the same allocation; read/write guards deref to the lock's datum and are released on drop"
#[kani::proof]
fn c17_arc_rw_lock_clone_borrow() {
    let v0: P = kani::any();
    let arc = Arc::new(RwLock::new(v0));
    let keep = arc.clone();
    let r = Reference::from_arc_rw_lock(arc);
    clone_borrow_contract(&r, V_ARC_RW, Arc::as_ptr(&keep) as *const (), v0);
    assert!(keep.try_write().is_ok());
    reach!();
}
//@ob fn="<ReferenceUnsafe<T> as Clone>::clone, into_inner, From (ArcRwLock)" at=src/reference.rs:244 clause="ArcRwLock: from_arc_rw_lock moves the Arc; clone bumps the strong count by exactly one, drop releases it; into_inner/From return the same Arc"
#[kani::proof]
fn c17_arc_rw_lock_count_into_inner() {
    let v0: P = kani::any();
    let arc = Arc::new(RwLock::new(v0));
    let keep = arc.clone();
    let r = Reference::from_arc_rw_lock(arc);
    assert!(Arc::strong_count(&keep) == 2);
    let c = r.clone();
    assert!(Arc::strong_count(&keep) == 3);
    let c2 = c.clone();
    assert!(Arc::strong_count(&keep) == 4);
    drop(c2);
    assert!(Arc::strong_count(&keep) == 3);
    match r.into_inner() {
        ReferenceUnsafe::ArcRwLock(got) => {
            assert!(Arc::ptr_eq(&got, &keep));
            assert!(Arc::strong_count(&got) == 3);
        }
        _ => assert!(false),
    }
    match ReferenceUnsafe::from(c) {
        ReferenceUnsafe::ArcRwLock(got) => {
            assert!(Arc::ptr_eq(&got, &keep));
            assert!(Arc::strong_count(&got) == 2);
        }
        _ => assert!(false),
    }
    assert!(Arc::strong_count(&keep) == 1);
    assert!(*keep.read().unwrap() == v0);
    reach!();
}
//@ob fn="arc_rw_lock_reference / Clone / Drop (ArcRwLock)" at=src/reference.rs:478 prop=C17,C16 clause="ArcRwLock: target stays alive (no dead-object access, not destroyed) while any clone exists after the original is dropped; destroyed exactly once with the last clone"
lifetime_harness!(c17_arc_rw_lock_lifetime, arc_rw_lock_reference);

// ------------------------------------------------------------------ ArcMutex
//@ob fn="Reference::clone / borrow / borrow_mut (ArcMutex)" at=src/reference.rs:188 clause="ArcMutex: a write through any of three handles is read through all (arc_mutex_reference target), sequentially"
#[kani::proof]
fn c17_arc_mutex_alias() {
    let v0: P = kani::any();
    alias_contract(arc_mutex_reference(v0), v0, V_ARC_MX);
    reach!();
}
//@ob fn="<ReferenceUnsafe<T> as Clone>::clone, borrow, borrow_mut, Deref, DerefMut (ArcMutex)" at=src/reference.rs:246 clause="ArcMutex: clone is the same variant on the same allocation; guards deref to the mutex's datum and are released on drop"
#[kani::proof]
fn c17_arc_mutex_clone_borrow() {
    let v0: P = kani::any();
    let arc = Arc::new(Mutex::new(v0));
    let keep = arc.clone();
    let r = Reference::from_arc_mutex(arc);
    clone_borrow_contract(&r, V_ARC_MX, Arc::as_ptr(&keep) as *const (), v0);
    assert!(keep.try_lock().is_ok());
    reach!();
}
//@ob fn="<ReferenceUnsafe<T> as Clone>::clone, into_inner, From (ArcMutex)" at=src/reference.rs:246 clause="ArcMutex: from_arc_mutex moves the Arc; clone bumps the strong count by exactly one, drop releases it; into_inner/From return the same Arc"
#[kani::proof]
fn c17_arc_mutex_count_into_inner() {
    let v0: P = kani::any();
    let arc = Arc::new(Mutex::new(v0));
    let keep = arc.clone();
    let r = Reference::from_arc_mutex(arc);
    assert!(Arc::strong_count(&keep) == 2);
    let c = r.clone();
    assert!(Arc::strong_count(&keep) == 3);
    let c2 = c.clone();
    assert!(Arc::strong_count(&keep) == 4);
    drop(c2);
    assert!(Arc::strong_count(&keep) == 3);
    match r.into_inner() {
        ReferenceUnsafe::ArcMutex(got) => {
            assert!(Arc::ptr_eq(&got, &keep));
            assert!(Arc::strong_count(&got) == 3);
        }
        _ => assert!(false),
    }
    match ReferenceUnsafe::from(c) {
        ReferenceUnsafe::ArcMutex(got) => {
            assert!(Arc::ptr_eq(&got, &keep));
            assert!(Arc::strong_count(&got) == 2);
        }
        _ => assert!(false),
    }
    assert!(Arc::strong_count(&keep) == 1);
    assert!(*keep.lock().unwrap() == v0);
    reach!();
}
//@ob fn="arc_mutex_reference / Clone / Drop (ArcMutex)" at=src/reference.rs:487 prop=C17,C16 clause="ArcMutex: target stays alive (no dead-object access, not destroyed) while any clone exists after the original is dropped; destroyed exactly once with the last clone"
lifetime_harness!(c17_arc_mutex_lifetime, arc_mutex_reference);

// ------------------------------------------------------------------ to_dyn! expanded inside rrtk
// Inside rrtk the three listed arms (Ptr, RcRefCell, PtrRwLock) exist with the default features.  That the
// conversion does not depend on which features the CALLING crate declares (the defect of DESIGN section 6, fixed
// in /repo by 8a9f062: the feature-dependent arms now live in helper macros selected by rrtk's own features)
// can only be checked from another crate: /verif/kani/ext/c17_todyn_downstream (no features) and
// /verif/kani/ext/c17_todyn_downstream_feat (features named alloc/std).
trait Tr {
    fn read(&self) -> u32;
    fn write(&mut self, v: u32);
}
struct S {
    pad: u8,
    v: u32,
}
impl Tr for S {
    fn read(&self) -> u32 {
        self.v
    }
    fn write(&mut self, v: u32) {
        self.v = v;
    }
}
/// Shared postcondition: `d` (the converted handle) and `keep` (a clone of the source taken before the
/// conversion) denote one object: same variant, same container, same datum address; a write through the trait
/// object is read through the typed clone and vice versa.
fn to_dyn_post(d: Reference<dyn Tr>, keep: Reference<S>, variant: u8, v0: u32) {
    assert!(denote(&d) == denote(&keep));
    assert!(denote(&d).0 == variant);
    assert!(d.borrow().read() == v0);
    let x: u32 = kani::any();
    d.borrow_mut().write(x);
    assert!(keep.borrow().v == x);
    let y: u32 = kani::any();
    keep.borrow_mut().v = y;
    assert!(d.borrow().read() == y);
    // the converted handle clones like any other
    let d2 = d.clone();
    drop(d);
    let z: u32 = kani::any();
    d2.borrow_mut().write(z);
    assert!(keep.borrow().v == z);
}
//@ob fn="to_dyn! (Ptr arm)" at=src/reference.rs:349 clause="to_dyn! on Ptr does not panic; result is a Ptr Reference<dyn Tr> aliasing the source object"
#[kani::proof]
fn c17_to_dyn_ptr() {
    let v0: u32 = kani::any();
    let mut target = S { pad: kani::any(), v: v0 };
    let r = unsafe { Reference::from_ptr(&mut target as *mut S) };
    let keep = r.clone();
    let d: Reference<dyn Tr> = to_dyn!(Tr, r);
    to_dyn_post(d, keep, V_PTR, v0);
    reach!();
}
//@ob fn="to_dyn! / __to_dyn_alloc! (RcRefCell arm)" at=src/reference.rs:373 clause="to_dyn! on RcRefCell (expanded where feature alloc is visible) does not panic; result shares the allocation, strong count unchanged by the conversion"
#[kani::proof]
fn c17_to_dyn_rc() {
    let v0: u32 = kani::any();
    let rc = Rc::new(RefCell::new(S { pad: kani::any(), v: v0 }));
    let probe = rc.clone();
    let r = Reference::from_rc_ref_cell(rc);
    let keep = r.clone();
    assert!(Rc::strong_count(&probe) == 3);
    let d: Reference<dyn Tr> = to_dyn!(Tr, r);
    assert!(Rc::strong_count(&probe) == 3);
    to_dyn_post(d, keep, V_RC, v0);
    assert!(Rc::strong_count(&probe) == 1);
    reach!();
}
//@ob fn="to_dyn! / __to_dyn_std! (PtrRwLock arm)" at=src/reference.rs:401 clause="to_dyn! on PtrRwLock (expanded where feature std is visible) does not panic; result is a PtrRwLock Reference<dyn Tr> on the same lock"
#[kani::proof]
fn c17_to_dyn_ptr_rw_lock() {
    let v0: u32 = kani::any();
    let lock = RwLock::new(S { pad: kani::any(), v: v0 });
    let r = unsafe { Reference::from_ptr_rw_lock(&lock as *const RwLock<S>) };
    let keep = r.clone();
    let d: Reference<dyn Tr> = to_dyn!(Tr, r);
    to_dyn_post(d, keep, V_PTR_RW, v0);
    reach!();
}
// Variants the macro does not list: documented limitation (outside "every variant the macro lists"), recorded.
//@ob fn="to_dyn! (no PtrMutex arm)" at=src/reference.rs:406 clause="to_dyn! on PtrMutex always reaches unimplemented!() (variant not listed by the macro: limitation, outside the claim)"
#[kani::proof]
#[kani::should_panic]
fn c17_to_dyn_ptr_mutex_unlisted_panics() {
    let m = Mutex::new(S { pad: 0, v: kani::any() });
    let r = unsafe { Reference::from_ptr_mutex(&m as *const Mutex<S>) };
    kani::cover!(true, "reach-before-conversion");
    let _d: Reference<dyn Tr> = to_dyn!(Tr, r);
    kani::cover!(true, "unreach: returned normally");
}
//@ob fn="to_dyn! (no ArcRwLock arm)" at=src/reference.rs:406 clause="to_dyn! on ArcRwLock always reaches unimplemented!() (variant not listed by the macro: limitation, outside the claim)"
#[kani::proof]
#[kani::should_panic]
fn c17_to_dyn_arc_rw_lock_unlisted_panics() {
    let r = arc_rw_lock_reference(S { pad: 0, v: kani::any() });
    kani::cover!(true, "reach-before-conversion");
    let _d: Reference<dyn Tr> = to_dyn!(Tr, r);
    kani::cover!(true, "unreach: returned normally");
}
//@ob fn="to_dyn! (no ArcMutex arm)" at=src/reference.rs:406 clause="to_dyn! on ArcMutex always reaches unimplemented!() (variant not listed by the macro: limitation, outside the claim)"
#[kani::proof]
#[kani::should_panic]
fn c17_to_dyn_arc_mutex_unlisted_panics() {
    let r = arc_mutex_reference(S { pad: 0, v: kani::any() });
    kani::cover!(true, "reach-before-conversion");
    let _d: Reference<dyn Tr> = to_dyn!(Tr, r);
    kani::cover!(true, "unreach: returned normally");
}

// ------------------------------------------------------------------ clone_from (the provided Clone method)
//@ob fn="<Reference<T> as Clone>::clone_from" at=src/reference.rs:318 clause="a.clone_from(&b) makes a denote b's object, also for Ptr References to UNSIZED targets that start at the same address but differ in length (a slice and its prefix): afterwards a reads b's length and contents; b unchanged"
#[kani::proof]
fn c17_clone_from_takes_the_source_wide_pointer() {
    let mut arr: [u8; 4] = kani::any();
    let whole: *mut [u8] = &mut arr[..] as *mut [u8];
    let prefix: *mut [u8] = core::ptr::slice_from_raw_parts_mut(arr.as_mut_ptr(), 2);
    let mut a: Reference<[u8]> = unsafe { Reference::from_ptr(whole) };
    let b: Reference<[u8]> = unsafe { Reference::from_ptr(prefix) };
    assert!(a.borrow().len() == 4 && b.borrow().len() == 2);
    a.clone_from(&b);
    assert!(a.borrow().len() == 2);
    assert!(b.borrow().len() == 2);
    let x: u8 = kani::any();
    a.borrow_mut()[1] = x;
    assert!(b.borrow()[1] == x);
    reach!();
}

//@ob fn="<Reference<T> as Clone>::clone_from" at=src/reference.rs:318 clause="a.clone_from(&b) for Rc-backed References: afterwards a and b are one object (a write through a is read through b), the object a denoted before is released"
#[kani::proof]
fn c17_clone_from_rc_rebinds() {
    let v: u32 = kani::any();
    let w: u32 = kani::any();
    let mut a = rc_ref_cell_reference(v);
    let keep_a = a.clone();
    let b = rc_ref_cell_reference(w);
    a.clone_from(&b);
    assert!(*a.borrow() == w);
    let x: u32 = kani::any();
    *a.borrow_mut() = x;
    assert!(*b.borrow() == x);
    assert!(*keep_a.borrow() == v);
    reach!();
}
