//@host src/streams/flow.rs
//@config dev
// C05 one-step contract of FreezeStream (payload Tok: parametric) over an ARBITRARY pre-state (the frozen
// value symbolic, a cached error included): the documented table
//   condition Err(e)      => Err(e) cached and returned, input not read
//   condition absent      => frozen value becomes Ok(None), Ok returned, input not read
//   condition Some(false) => frozen value becomes exactly what the input returned; an input error is returned
//   condition Some(true)  => state bit-unchanged, Ok returned, input not read
// The condition's own timestamp never matters.
#![allow(unused_imports, dead_code)]
use super::*;
use crate::verif_c05_bits::*;
use crate::verif_support::*;
use crate::*;

type Fz = FreezeStream<Tok, Scripted<bool>, Scripted<Tok>, Er>;
fn any_fz(c: Reference<Scripted<bool>>, i: Reference<Scripted<Tok>>) -> Fz {
    FreezeStream { condition: c, input: i, freeze_value: any_output() }
}

//@ob fn="FreezeStream::new" at=src/streams/flow.rs:134 clause="new() holds Ok(None); get() of it is Ok(None)"
#[kani::proof]
fn c05_freeze_new() {
    let mut c = Scripted::<bool>::new(any_output());
    let mut i = Scripted::<Tok>::new(any_output());
    let s = FreezeStream::<Tok, Scripted<bool>, Scripted<Tok>, Er>::new(rf(&mut c), rf(&mut i));
    assert!(s.freeze_value.beq(&Ok(None)));
    assert!(s.get().beq(&Ok(None)));
    reach!();
}

//@ob fn="<FreezeStream<T,GC,GI,E> as Updatable>::update" at=src/streams/flow.rs:154 clause="condition Err(e), arbitrary pre-state and input: Err(e) is cached, returned by update and by get(); the input is not read"
#[kani::proof]
fn c05_freeze_cond_error() {
    let e: Error<Er> = kani::any();
    let mut c = Scripted::<bool>::new(Err(e));
    let mut i = Scripted::<Tok>::new(any_output());
    let mut s = any_fz(rf(&mut c), rf(&mut i));
    let r = s.update();
    assert!(r == Err(e));
    assert!(s.freeze_value.beq(&Err(e)) && s.get().beq(&Err(e)));
    assert!(c.gets.get() == 1 && i.gets.get() == 0 && c.updates == 0 && i.updates == 0);
    reach!();
}

//@ob fn="<FreezeStream<T,GC,GI,E> as Updatable>::update" at=src/streams/flow.rs:158 clause="condition absent, arbitrary pre-state (cached error included) and input: the frozen value becomes Ok(None), update returns Ok, get() is Ok(None); the input is not read"
#[kani::proof]
fn c05_freeze_cond_absent() {
    let mut c = Scripted::<bool>::new(Ok(None));
    let mut i = Scripted::<Tok>::new(any_output());
    let mut s = any_fz(rf(&mut c), rf(&mut i));
    let r = s.update();
    assert!(r.is_ok());
    assert!(s.freeze_value.beq(&Ok(None)) && s.get().beq(&Ok(None)));
    assert!(c.gets.get() == 1 && i.gets.get() == 0);
    reach!();
}

//@ob fn="<FreezeStream<T,GC,GI,E> as Updatable>::update" at=src/streams/flow.rs:164 clause="condition Some(false) at any time, arbitrary pre-state (cached error included): the frozen value becomes exactly what the input returned (error / absent / present datum bit for bit) and get() returns it; update returns Err(e) iff the input returned Err(e); the result does not depend on the pre-state (equals that of new())"
#[kani::proof]
fn c05_freeze_cond_false() {
    let t: Time = kani::any();
    let ev = any_output::<Tok>();
    let mut c = Scripted::<bool>::new(Ok(Some(Datum::new(t, false))));
    let mut i = Scripted::new(ev);
    let mut s = any_fz(rf(&mut c), rf(&mut i));
    let mut fresh = FreezeStream::<Tok, Scripted<bool>, Scripted<Tok>, Er>::new(rf(&mut c), rf(&mut i));
    let r = s.update();
    let r2 = fresh.update();
    assert!(nerr_of(&r) == err_of(&ev));
    assert!(s.freeze_value.beq(&ev) && s.get().beq(&ev));
    assert!(r.beq(&r2) && s.freeze_value.beq(&fresh.freeze_value));
    assert!(c.gets.get() == 2 && i.gets.get() == 2);
    reach!();
}

//@ob fn="<FreezeStream<T,GC,GI,E> as Updatable>::update" at=src/streams/flow.rs:164 clause="condition Some(true) at any time, arbitrary pre-state and input: the frozen value is bit-unchanged (a cached error included), update returns Ok, get() returns the pre-state's value; the input is not read"
#[kani::proof]
fn c05_freeze_cond_true() {
    let t: Time = kani::any();
    let mut c = Scripted::<bool>::new(Ok(Some(Datum::new(t, true))));
    let mut i = Scripted::<Tok>::new(any_output());
    let mut s = any_fz(rf(&mut c), rf(&mut i));
    let pre = s.freeze_value;
    let r = s.update();
    assert!(r.is_ok());
    assert!(s.freeze_value.beq(&pre) && s.get().beq(&pre));
    assert!(c.gets.get() == 1 && i.gets.get() == 0);
    reach!();
}

//@ob fn="<FreezeStream<T,GC,GI,E> as Getter>::get" at=src/streams/flow.rs:145 clause="purity: get() returns the frozen value, twice the same (bitwise), state bit-unchanged, neither condition nor input touched; arbitrary state"
#[kani::proof]
fn c05_freeze_get_pure() {
    let mut c = Scripted::<bool>::new(any_output());
    let mut i = Scripted::<Tok>::new(any_output());
    let s = any_fz(rf(&mut c), rf(&mut i));
    let pre = s.freeze_value;
    let g1 = s.get();
    let g2 = s.get();
    assert!(g1.beq(&g2) && g1.beq(&pre));
    assert!(s.freeze_value.beq(&pre));
    assert!(c.gets.get() == 0 && i.gets.get() == 0);
    reach!();
}
