//@host src/lib.rs
//@config dev,std_relcheck,std_nocheck,libm_check,libm_nocheck,micromath_check,micromath_nocheck,rel_check,rel_default
//@quickconfigs dev,std_nocheck,libm_nocheck,libm_check,rel_check
// C19: the cfg-dependent items of the crate (Unit and its methods, From<PositionDerivative> for Unit, Quantity::abs,
// PartialEq for Quantity, the State setters and Time/DimensionlessInteger::try_from that consult a unit, powf) are
// re-proved against the SAME value contracts in every feature configuration: the contracts are functions of the raw
// f32 / i64 inputs only, so equal inputs give equal numbers in every configuration; with checking compiled out nothing
// panics or rejects. Every other function of the crate has configuration-independent text.
#![allow(unused_imports, dead_code, unused_variables, unused_mut)]
use crate::*;
use crate::verif_support::*;

const CHECKED: bool = cfg!(any(feature = "dim_check_release", all(debug_assertions, feature = "dim_check_debug")));

fn any_q() -> Quantity { kani::any() }
/// in checked builds the second operand gets the first one's unit (a dimensionally correct program); in unchecked
/// builds units do not exist and any pair is allowed
fn pair_same_unit() -> (Quantity, Quantity) {
    let a: Quantity = kani::any();
    let mut b: Quantity = kani::any();
    b.unit = a.unit;
    (a, b)
}
fn ieee_abs(v: f32) -> f32 { f32::from_bits(v.to_bits() & 0x7fff_ffff) }

//@ob fn="<Quantity as Add>::add / Sub / Mul / Div / Neg" at=src/dimensions.rs:679 clause="value of every Quantity operator == the f32 operator on the raw values, in this configuration (equal or both NaN)"
#[kani::proof]
#[kani::solver(cvc5)]
fn c19_quantity_operator_values() {
    let (a, b) = pair_same_unit();
    assert!(fsame((a + b).value, a.value + b.value));
    assert!(fsame((a - b).value, a.value - b.value));
    let c: Quantity = kani::any();
    assert!(fsame((a * c).value, a.value * c.value));
    assert!(fsame((a / c).value, a.value / c.value));
    assert!(fsame((-a).value, -a.value));
    reach!();
}
//@ob fn="<Quantity as AddAssign>::add_assign / SubAssign / MulAssign / DivAssign" at=src/dimensions.rs:688 clause="assign forms: same values as the binary operators, in this configuration"
#[kani::proof]
#[kani::solver(cvc5)]
fn c19_quantity_assign_values() {
    let (a, b) = pair_same_unit();
    let mut x = a; x += b; assert!(fsame(x.value, a.value + b.value));
    let mut x = a; x -= b; assert!(fsame(x.value, a.value - b.value));
    let c: Quantity = kani::any();
    let mut x = a; x *= c; assert!(fsame(x.value, a.value * c.value));
    let mut x = a; x /= c; assert!(fsame(x.value, a.value / c.value));
    reach!();
}
//@ob fn="Quantity::abs" at=src/dimensions.rs:651 clause="std f32::abs and the manual no_std branch give the same f32 value: abs == IEEE abs (sign bit cleared) compared as f32 values, for non-NaN inputs, in this configuration"
#[kani::proof]
#[kani::solver(cvc5)]
fn c19_quantity_abs_value() {
    let a: Quantity = kani::any();
    kani::assume(!a.value.is_nan());
    let r = a.abs();
    assert!(r.value == ieee_abs(a.value));
    reach!();
}
//@ob fn="<Quantity as PartialOrd>::partial_cmp / PartialEq" at=src/dimensions.rs:845 clause="ordering and equality of equally dimensioned quantities (partial_cmp, ==, !=, <, <=, >, >=; NaN included) are those of the raw f32 values, in this configuration"
#[kani::proof]
fn c19_quantity_compare_values() {
    let (a, b) = pair_same_unit();
    assert!(a.partial_cmp(&b) == a.value.partial_cmp(&b.value));
    assert!((a == b) == (a.value == b.value));
    // the four operators and `!=` themselves (they are provided methods that an impl may override), NaN included
    assert!((a < b) == (a.value < b.value));
    assert!((a <= b) == (a.value <= b.value));
    assert!((a > b) == (a.value > b.value));
    assert!((a >= b) == (a.value >= b.value));
    assert!((a != b) == (a.value != b.value));
    reach!();
}
//@ob fn="<Quantity as From<Time>>::from / From<DimensionlessInteger>" at=src/dimensions.rs:150 clause="Time -> Quantity is (ns as f32)/1e9 and DimensionlessInteger -> Quantity is n as f32, in this configuration"
#[kani::proof]
#[kani::solver(cvc5)]
fn c19_integer_to_quantity_values() {
    let t: Time = kani::any();
    assert!(fsame(Quantity::from(t).value, t.0 as f32 / 1_000_000_000.0));
    let n: DimensionlessInteger = kani::any();
    assert!(fsame(Quantity::from(n).value, n.0 as f32));
    reach!();
}
//@ob prop=C19,C18 fn="<Time as TryFrom<Quantity>>::try_from" at=src/dimensions.rs:140 clause="seconds -> Time is (v*1e9) as i64 in this configuration; with checking compiled out every quantity is accepted"
#[kani::proof]
fn c19_quantity_to_time_value() {
    let v: f32 = kani::any();
    let q = Quantity::new(v, SECOND);
    assert!(Time::try_from(q) == Ok(Time((v * 1_000_000_000.0) as i64)));
    let w = Quantity::new(v, DIMENSIONLESS);
    assert!(DimensionlessInteger::try_from(w) == Ok(DimensionlessInteger(v as i64)));
    if !CHECKED {
        let any: Quantity = kani::any();
        assert!(Time::try_from(any).is_ok());
        assert!(DimensionlessInteger::try_from(any).is_ok());
    }
    reach!();
}
//@ob prop=C19,C14 fn="State::update" at=src/state.rs:37 clause="v' = v + dt*a, p' = p + dt*(v+v')/2 with dt = (ns as f32)/1e9 as f32 expressions, acceleration unchanged, in this configuration"
#[kani::proof]
#[kani::solver(cvc5)]
fn c19_state_update_values() {
    let mut s: State = kani::any();
    let s0 = s;
    let dt: Time = kani::any();
    s.update(dt);
    let d = dt.0 as f32 / 1_000_000_000.0;
    let v1 = s0.velocity + d * s0.acceleration;
    let p1 = s0.position + d * (s0.velocity + v1) / 2.0;
    assert!(fsame(s.velocity, v1));
    assert!(fsame(s.position, p1));
    assert!(fsame(s.acceleration, s0.acceleration)); // (bit comparison via to_bits is not meaningful for NaN under the SMT FP theory)
    reach!();
}
//@ob prop=C19,C14 fn="State::set_constant_position / velocity / acceleration, State::new, getters" at=src/state.rs:52 clause="correctly dimensioned arguments give the same fields in this configuration; with checking compiled out every argument is accepted and nothing panics"
#[kani::proof]
fn c19_state_setters() {
    let mut s: State = kani::any();
    let v: f32 = kani::any();
    assert!(s.set_constant_position(Quantity::new(v, MILLIMETER)).is_ok());
    assert!(feq(s.position, v) && feq(s.velocity, 0.0) && feq(s.acceleration, 0.0));
    let mut s: State = kani::any();
    let s0 = s;
    assert!(s.set_constant_velocity(Quantity::new(v, MILLIMETER_PER_SECOND)).is_ok());
    assert!(feq(s.position, s0.position) && feq(s.velocity, v) && feq(s.acceleration, 0.0));
    let mut s: State = kani::any();
    let s0 = s;
    assert!(s.set_constant_acceleration(Quantity::new(v, MILLIMETER_PER_SECOND_SQUARED)).is_ok());
    assert!(feq(s.position, s0.position) && feq(s.velocity, s0.velocity) && feq(s.acceleration, v));
    assert!(feq(s.get_position().value, s.position) && feq(s.get_velocity().value, s.velocity) && feq(s.get_acceleration().value, s.acceleration));
    if !CHECKED {
        let q: Quantity = kani::any();
        let mut t: State = kani::any();
        assert!(t.set_constant_position(q).is_ok() && feq(t.position, q.value));
        assert!(t.set_constant_velocity(q).is_ok() && feq(t.velocity, q.value));
        assert!(t.set_constant_acceleration(q).is_ok() && feq(t.acceleration, q.value));
        let n = State::new(kani::any(), kani::any(), kani::any());
        let _ = n;
    }
    reach!();
}
//@ob fn="<Unit as Add>::add / Sub / AddAssign / SubAssign, Quantity + - partial_cmp" at=src/dimensions.rs:516 clause="with dimension checking compiled out no unit mismatch ever panics: add, sub, their assign forms and ordering return normally for ANY pair of quantities (in checked configurations this harness only exercises equal units)"
#[kani::proof]
fn c19_unchecked_never_panics() {
    let a: Quantity = kani::any();
    let mut b: Quantity = kani::any();
    if CHECKED { b.unit = a.unit; }
    let _ = a + b;
    let _ = a - b;
    let mut x = a; x += b; x -= b;
    let _ = a.partial_cmp(&b);
    let _ = a.unit + b.unit;
    let _ = a.unit - b.unit;
    a.unit.assert_eq_assume_ok(&b.unit);
    assert!(a.unit.eq_assume_true(&b.unit));
    reach!();
}
//@ob fn="<Unit as From<PositionDerivative>>::from / Command <-> Quantity" at=src/dimensions.rs:479 clause="position-derivative and command conversions move the raw value unchanged in this configuration"
#[kani::proof]
fn c19_command_quantity_values() {
    let c: Command = kani::any();
    let q = Quantity::from(c);
    assert!(feq(q.value, f32::from(c)));
    let pd: PositionDerivative = kani::any();
    let _u: Unit = pd.into();
    reach!();
}

//@ob prop=C19,C12 fn="enhanced_float::powf" at=src/enhanced_float.rs:5 clause="(no_std + libm builds; under std the platform powf is an intrinsic Kani does not model) the power function selected by the configuration agrees with IEEE pow on its special cases and on exactly representable results: powf(x, 0) = 1 for x in {0, -0, 1, -2, 2.5}; powf(1, y) = 1; powf(-2, 3) = -8; powf(2, 10) = 1024; powf(0, 2) = 0; powf(4, 0.5) = 2 (beyond the last-ulps difference the property tolerates)" bounded="11 concrete points (special cases and exactly representable results)" configs=libm_nocheck,libm_check
#[kani::proof]
#[kani::unwind(40)]
fn c19_powf_special_cases() {
    use crate::enhanced_float::powf;
    assert!(powf(0.0, 0.0) == 1.0);
    assert!(powf(-0.0, 0.0) == 1.0);
    assert!(powf(1.0, 0.0) == 1.0);
    assert!(powf(-2.0, 0.0) == 1.0);
    assert!(powf(2.5, 0.0) == 1.0);
    assert!(powf(1.0, 7.25) == 1.0);
    assert!(powf(-2.0, 3.0) == -8.0);
    assert!(powf(2.0, 10.0) == 1024.0);
    assert!(powf(0.0, 2.0) == 0.0);
    assert!(powf(4.0, 0.5) == 2.0);
    assert!(powf(0.5, 1.0) == 0.5);
    reach!();
}

//@ob prop=C19,C12 fn="enhanced_float::powf" at=src/enhanced_float.rs:5 clause="(no_std + libm builds) A4, first half, proved instead of assumed for this back end: powf(x, 0) == 1 and powf(x, -0) == 1 for EVERY f32 x (NaN and infinities included), so the EWMA's first sample (dt = 0) gets weight 1 - powf(1 - s, 0) = 0 of the old value" configs=libm_nocheck,libm_check
#[kani::proof]
#[kani::unwind(40)]
fn c19_powf_zero_exponent_is_one() {
    use crate::enhanced_float::powf;
    let x: f32 = kani::any();
    assert!(powf(x, 0.0) == 1.0);
    assert!(powf(x, -0.0) == 1.0);
    reach!();
}

//@ob prop=C19,C12 tier=thorough fn="enhanced_float::powf" at=src/enhanced_float.rs:5 clause="(no_std + libm builds) A4, second half, for this back end: 0 <= powf(x, y) <= 1 for every 0 <= x <= 1 and y >= 0 (so the EWMA weight 1 - powf(1 - s, dt) stays in [0, 1])" configs=libm_nocheck
#[kani::proof]
#[kani::unwind(40)]
fn c19_powf_unit_interval() {
    use crate::enhanced_float::powf;
    let x: f32 = kani::any();
    let y: f32 = kani::any();
    kani::assume(x >= 0.0 && x <= 1.0 && y >= 0.0);
    let r = powf(x, y);
    assert!(r >= 0.0 && r <= 1.0);
    reach!();
}

//@ob prop=C19,C14,C11 fn="State::get_value / get_position / get_velocity / get_acceleration" at=src/state.rs:112 clause="in this configuration: get_value(d) returns the field of derivative d bit-identically (position, velocity, acceleration for d = Position, Velocity, Acceleration) and the three named accessors return their fields -- the selection does not go through anything a build without unit checking answers differently"
#[kani::proof]
fn c19_state_get_value_selects_the_component() {
    let s: State = kani::any();
    let d: PositionDerivative = kani::any();
    let g = s.get_value(d);
    match d {
        PositionDerivative::Position => assert!(feq(g.value, s.position)),
        PositionDerivative::Velocity => assert!(feq(g.value, s.velocity)),
        PositionDerivative::Acceleration => assert!(feq(g.value, s.acceleration)),
    }
    assert!(feq(s.get_position().value, s.position) && feq(s.get_velocity().value, s.velocity) && feq(s.get_acceleration().value, s.acceleration));
    kani::cover!(d == PositionDerivative::Velocity, "reach: velocity selected");
    reach!();
}
