//@host src/streams/math.rs
//@config dev
// C02 (and the stream-level clauses of C03, C16): the stateless arithmetic streams of src/streams/math.rs.
// Every input is a `Scripted` getter whose single output is fully symbolic (`any_output()`): all assignments of
// {Err(FromNone), Err(Other(e)), Ok(None), Ok(Some(Datum{any i64, any token}))} and all orders (<,=,>) of the
// timestamps are covered at once.  Each postcondition is a pure spec function written from the property statement
// and the type's doc comment; the comparison is full structural equality of `Output` (category, error value,
// timestamp, token).  `Tok` operators are non-commutative and non-associative bit mixes, so equality of the token
// fixes operator, operands and association.
#![allow(unused_imports, dead_code)]
use super::*;
use crate::verif_support::*;
use crate::*;

type O = Output<Tok, Er>;

// ---------------------------------------------------------------------------------------------------------------
// n-ary sum / product
// ---------------------------------------------------------------------------------------------------------------
fn tok_add_assign(a: Tok, b: Tok) -> Tok {
    let mut v = a;
    v += b;
    v
}
fn tok_mul_assign(a: Tok, b: Tok) -> Tok {
    let mut v = a;
    v *= b;
    v
}
/// Documented outcome of `SumStream` / `ProductStream` (statement C02 + doc comments):
///  * an input error is returned unchanged, the earliest one in input order;
///  * otherwise absent inputs are skipped; the result is absent only when all inputs are;
///  * the present values are folded left to right with exactly the assign operator `comb`;
///  * C03: the result timestamp is the newest of the contributing timestamps.
fn spec_nary<const N: usize, F: Fn(Tok, Tok) -> Tok>(inp: &[O; N], comb: F) -> O {
    let mut i = 0;
    while i < N {
        if let Err(e) = inp[i] {
            return Err(e);
        }
        i += 1;
    }
    let mut acc: Option<Datum<Tok>> = None;
    let mut i = 0;
    while i < N {
        if let Ok(Some(d)) = inp[i] {
            acc = Some(match acc {
                None => d,
                Some(a) => Datum::new(tmax(a.time, d.time), comb(a.value, d.value)),
            });
        }
        i += 1;
    }
    Ok(acc)
}

macro_rules! nary_harness {
    ($name:ident, $stream:ident, $comb:expr, $n:expr, $unw:expr, [$($s:ident),+]) => {
        #[kani::proof]
        #[kani::unwind($unw)]
        fn $name() {
            $(let mut $s = Scripted::<Tok>::new(any_output());)+
            let inp: [O; $n] = [$($s.out),+];
            let stream = $stream::<Tok, $n, Er>::new([$(rf_dyn(&mut $s)),+]);
            let want = spec_nary(&inp, $comb);
            let r1 = stream.get();
            assert!(r1 == want);
            kani::cover!(r1.is_err(), "result is an error");
            kani::cover!(r1 == Ok(None), "result absent");
            kani::cover!(matches!(r1, Ok(Some(_))), "result present");
            reach!();
        }
    };
}
// purity (kept apart from the spec comparison, which halves the solver time of either): a second read returns the
// same and the inputs still answer what they answered before.

/// Small payload for the purity harnesses (the combinators are generic in T; purity does not depend on which
/// operator T supplies, so a one-byte non-commutative mix keeps the formula small).
#[derive(Clone, Copy, Debug, PartialEq, Eq)]
struct Pay(u8);
impl AddAssign for Pay {
    fn add_assign(&mut self, o: Pay) {
        self.0 = self.0.rotate_left(3).wrapping_add(o.0) ^ 0x5A;
    }
}
impl MulAssign for Pay {
    fn mul_assign(&mut self, o: Pay) {
        self.0 = self.0.rotate_left(5).wrapping_add(o.0) ^ 0xC3;
    }
}
impl kani::Arbitrary for Pay {
    fn any() -> Self {
        Pay(kani::any())
    }
}
macro_rules! nary_pure_harness {
    ($name:ident, $stream:ident, $n:expr, $unw:expr, [$($s:ident),+]) => {
        #[kani::proof]
        #[kani::unwind($unw)]
        fn $name() {
            $(let mut $s = Scripted::<Pay>::new(any_output());)+
            let inp: [Output<Pay, Er>; $n] = [$($s.out),+];
            let stream = $stream::<Pay, $n, Er>::new([$(rf_dyn(&mut $s)),+]);
            let r1 = stream.get();
            let r2 = stream.get();
            assert!(r2 == r1);
            let after: [Output<Pay, Er>; $n] = [$($s.out),+];
            assert!(after == inp);
            $(assert!($s.updates == 0);)+
            kani::cover!(matches!(r1, Ok(Some(_))), "result present");
            reach!();
        }
    };
}

//@ob fn="<SumStream<T,N,E> as Getter<T,E>>::get" at=src/streams/math.rs:26 prop=C02,C03,C16 instance="arity 1 (const generic; complete for this N)" clause="N=1, all inputs symbolic at once: get()==spec: earliest input error returned unchanged; absent inputs skipped, absent iff all absent; present values left-folded with += in input order; timestamp = newest contributing (C03); holds for every content of the unwritten MaybeUninit slots (C16)"
nary_harness!(c02_sum_n1, SumStream, tok_add_assign, 1, 3, [s0]);
//@ob fn="<SumStream<T,N,E> as Getter<T,E>>::get" at=src/streams/math.rs:26 prop=C02,C16 instance="arity 1 (const generic; complete for this N)" clause="N=1, all inputs symbolic at once: purity: a second get() returns a result equal to the first (also independent of the unwritten MaybeUninit slots, C16), every input still holds the output it had and was not updated"
nary_pure_harness!(c02_sum_n1_pure, SumStream, 1, 3, [s0]);
//@ob fn="<SumStream<T,N,E> as Getter<T,E>>::get" at=src/streams/math.rs:26 prop=C02,C03,C16 instance="arity 2 (const generic; complete for this N)" clause="N=2, all inputs symbolic at once: get()==spec: earliest input error returned unchanged; absent inputs skipped, absent iff all absent; present values left-folded with += in input order; timestamp = newest contributing (C03); holds for every content of the unwritten MaybeUninit slots (C16)"
nary_harness!(c02_sum_n2, SumStream, tok_add_assign, 2, 4, [s0, s1]);
//@ob fn="<SumStream<T,N,E> as Getter<T,E>>::get" at=src/streams/math.rs:26 prop=C02,C16 instance="arity 2 (const generic; complete for this N)" clause="N=2, all inputs symbolic at once: purity: a second get() returns a result equal to the first (also independent of the unwritten MaybeUninit slots, C16), every input still holds the output it had and was not updated"
nary_pure_harness!(c02_sum_n2_pure, SumStream, 2, 4, [s0, s1]);
//@ob fn="<SumStream<T,N,E> as Getter<T,E>>::get" at=src/streams/math.rs:26 prop=C02,C03,C16 instance="arity 3 (const generic; complete for this N)" clause="N=3, all inputs symbolic at once: get()==spec: earliest input error returned unchanged; absent inputs skipped, absent iff all absent; present values left-folded with += in input order; timestamp = newest contributing (C03); holds for every content of the unwritten MaybeUninit slots (C16)"
nary_harness!(c02_sum_n3, SumStream, tok_add_assign, 3, 5, [s0, s1, s2]);
//@ob fn="<SumStream<T,N,E> as Getter<T,E>>::get" at=src/streams/math.rs:26 prop=C02,C16 instance="arity 3 (const generic; complete for this N)" clause="N=3, all inputs symbolic at once: purity: a second get() returns a result equal to the first (also independent of the unwritten MaybeUninit slots, C16), every input still holds the output it had and was not updated"
nary_pure_harness!(c02_sum_n3_pure, SumStream, 3, 5, [s0, s1, s2]);
//@ob fn="<SumStream<T,N,E> as Getter<T,E>>::get" at=src/streams/math.rs:26 prop=C02,C03,C16 instance="arity 4 (const generic; complete for this N)" clause="N=4, all inputs symbolic at once: get()==spec: earliest input error returned unchanged; absent inputs skipped, absent iff all absent; present values left-folded with += in input order; timestamp = newest contributing (C03); holds for every content of the unwritten MaybeUninit slots (C16)"
nary_harness!(c02_sum_n4, SumStream, tok_add_assign, 4, 6, [s0, s1, s2, s3]);
//@ob fn="<SumStream<T,N,E> as Getter<T,E>>::get" at=src/streams/math.rs:26 prop=C02,C16 instance="arity 4 (const generic; complete for this N)" clause="N=4, all inputs symbolic at once: purity: a second get() returns a result equal to the first (also independent of the unwritten MaybeUninit slots, C16), every input still holds the output it had and was not updated"
nary_pure_harness!(c02_sum_n4_pure, SumStream, 4, 6, [s0, s1, s2, s3]);
//@ob fn="<SumStream<T,N,E> as Getter<T,E>>::get" at=src/streams/math.rs:26 prop=C02,C03,C16 instance="arity 5 (const generic; complete for this N)" clause="N=5, all inputs symbolic at once: get()==spec: earliest input error returned unchanged; absent inputs skipped, absent iff all absent; present values left-folded with += in input order; timestamp = newest contributing (C03); holds for every content of the unwritten MaybeUninit slots (C16)"
nary_harness!(c02_sum_n5, SumStream, tok_add_assign, 5, 7, [s0, s1, s2, s3, s4]);
//@ob fn="<SumStream<T,N,E> as Getter<T,E>>::get" at=src/streams/math.rs:26 prop=C02,C16 instance="arity 5 (const generic; complete for this N)" clause="N=5, all inputs symbolic at once: purity: a second get() returns a result equal to the first (also independent of the unwritten MaybeUninit slots, C16), every input still holds the output it had and was not updated"
nary_pure_harness!(c02_sum_n5_pure, SumStream, 5, 7, [s0, s1, s2, s3, s4]);
//@ob fn="<SumStream<T,N,E> as Getter<T,E>>::get" at=src/streams/math.rs:26 prop=C02,C03,C16 tier=thorough instance="arity 6 (const generic; complete for this N)" clause="N=6, all inputs symbolic at once: get()==spec: earliest input error returned unchanged; absent inputs skipped, absent iff all absent; present values left-folded with += in input order; timestamp = newest contributing (C03); holds for every content of the unwritten MaybeUninit slots (C16)"
nary_harness!(c02_sum_n6, SumStream, tok_add_assign, 6, 8, [s0, s1, s2, s3, s4, s5]);
//@ob fn="<SumStream<T,N,E> as Getter<T,E>>::get" at=src/streams/math.rs:26 prop=C02,C16 tier=thorough instance="arity 6 (const generic; complete for this N)" clause="N=6, all inputs symbolic at once: purity: a second get() returns a result equal to the first (also independent of the unwritten MaybeUninit slots, C16), every input still holds the output it had and was not updated"
nary_pure_harness!(c02_sum_n6_pure, SumStream, 6, 8, [s0, s1, s2, s3, s4, s5]);
//@ob fn="<SumStream<T,N,E> as Getter<T,E>>::get" at=src/streams/math.rs:26 prop=C02,C03,C16 tier=thorough instance="arity 7 (const generic; complete for this N)" clause="N=7, all inputs symbolic at once: get()==spec: earliest input error returned unchanged; absent inputs skipped, absent iff all absent; present values left-folded with += in input order; timestamp = newest contributing (C03); holds for every content of the unwritten MaybeUninit slots (C16)"
nary_harness!(c02_sum_n7, SumStream, tok_add_assign, 7, 9, [s0, s1, s2, s3, s4, s5, s6]);
//@ob fn="<SumStream<T,N,E> as Getter<T,E>>::get" at=src/streams/math.rs:26 prop=C02,C16 tier=thorough instance="arity 7 (const generic; complete for this N)" clause="N=7, all inputs symbolic at once: purity: a second get() returns a result equal to the first (also independent of the unwritten MaybeUninit slots, C16), every input still holds the output it had and was not updated"
nary_pure_harness!(c02_sum_n7_pure, SumStream, 7, 9, [s0, s1, s2, s3, s4, s5, s6]);
//@ob fn="<SumStream<T,N,E> as Getter<T,E>>::get" at=src/streams/math.rs:26 prop=C02,C03,C16 tier=thorough instance="arity 8 (const generic; complete for this N)" clause="N=8, all inputs symbolic at once: get()==spec: earliest input error returned unchanged; absent inputs skipped, absent iff all absent; present values left-folded with += in input order; timestamp = newest contributing (C03); holds for every content of the unwritten MaybeUninit slots (C16)"
nary_harness!(c02_sum_n8, SumStream, tok_add_assign, 8, 10, [s0, s1, s2, s3, s4, s5, s6, s7]);
//@ob fn="<SumStream<T,N,E> as Getter<T,E>>::get" at=src/streams/math.rs:26 prop=C02,C16 tier=thorough instance="arity 8 (const generic; complete for this N)" clause="N=8, all inputs symbolic at once: purity: a second get() returns a result equal to the first (also independent of the unwritten MaybeUninit slots, C16), every input still holds the output it had and was not updated"
nary_pure_harness!(c02_sum_n8_pure, SumStream, 8, 10, [s0, s1, s2, s3, s4, s5, s6, s7]);
//@ob fn="<ProductStream<T,N,E> as Getter<T,E>>::get" at=src/streams/math.rs:193 prop=C02,C03,C16 instance="arity 1 (const generic; complete for this N)" clause="N=1, all inputs symbolic at once: get()==spec: earliest input error returned unchanged; absent inputs skipped, absent iff all absent; present values left-folded with *= in input order; timestamp = newest contributing (C03); holds for every content of the unwritten MaybeUninit slots (C16)"
nary_harness!(c02_product_n1, ProductStream, tok_mul_assign, 1, 3, [s0]);
//@ob fn="<ProductStream<T,N,E> as Getter<T,E>>::get" at=src/streams/math.rs:193 prop=C02,C16 instance="arity 1 (const generic; complete for this N)" clause="N=1, all inputs symbolic at once: purity: a second get() returns a result equal to the first (also independent of the unwritten MaybeUninit slots, C16), every input still holds the output it had and was not updated"
nary_pure_harness!(c02_product_n1_pure, ProductStream, 1, 3, [s0]);
//@ob fn="<ProductStream<T,N,E> as Getter<T,E>>::get" at=src/streams/math.rs:193 prop=C02,C03,C16 instance="arity 2 (const generic; complete for this N)" clause="N=2, all inputs symbolic at once: get()==spec: earliest input error returned unchanged; absent inputs skipped, absent iff all absent; present values left-folded with *= in input order; timestamp = newest contributing (C03); holds for every content of the unwritten MaybeUninit slots (C16)"
nary_harness!(c02_product_n2, ProductStream, tok_mul_assign, 2, 4, [s0, s1]);
//@ob fn="<ProductStream<T,N,E> as Getter<T,E>>::get" at=src/streams/math.rs:193 prop=C02,C16 instance="arity 2 (const generic; complete for this N)" clause="N=2, all inputs symbolic at once: purity: a second get() returns a result equal to the first (also independent of the unwritten MaybeUninit slots, C16), every input still holds the output it had and was not updated"
nary_pure_harness!(c02_product_n2_pure, ProductStream, 2, 4, [s0, s1]);
//@ob fn="<ProductStream<T,N,E> as Getter<T,E>>::get" at=src/streams/math.rs:193 prop=C02,C03,C16 instance="arity 3 (const generic; complete for this N)" clause="N=3, all inputs symbolic at once: get()==spec: earliest input error returned unchanged; absent inputs skipped, absent iff all absent; present values left-folded with *= in input order; timestamp = newest contributing (C03); holds for every content of the unwritten MaybeUninit slots (C16)"
nary_harness!(c02_product_n3, ProductStream, tok_mul_assign, 3, 5, [s0, s1, s2]);
//@ob fn="<ProductStream<T,N,E> as Getter<T,E>>::get" at=src/streams/math.rs:193 prop=C02,C16 instance="arity 3 (const generic; complete for this N)" clause="N=3, all inputs symbolic at once: purity: a second get() returns a result equal to the first (also independent of the unwritten MaybeUninit slots, C16), every input still holds the output it had and was not updated"
nary_pure_harness!(c02_product_n3_pure, ProductStream, 3, 5, [s0, s1, s2]);
//@ob fn="<ProductStream<T,N,E> as Getter<T,E>>::get" at=src/streams/math.rs:193 prop=C02,C03,C16 instance="arity 4 (const generic; complete for this N)" clause="N=4, all inputs symbolic at once: get()==spec: earliest input error returned unchanged; absent inputs skipped, absent iff all absent; present values left-folded with *= in input order; timestamp = newest contributing (C03); holds for every content of the unwritten MaybeUninit slots (C16)"
nary_harness!(c02_product_n4, ProductStream, tok_mul_assign, 4, 6, [s0, s1, s2, s3]);
//@ob fn="<ProductStream<T,N,E> as Getter<T,E>>::get" at=src/streams/math.rs:193 prop=C02,C16 instance="arity 4 (const generic; complete for this N)" clause="N=4, all inputs symbolic at once: purity: a second get() returns a result equal to the first (also independent of the unwritten MaybeUninit slots, C16), every input still holds the output it had and was not updated"
nary_pure_harness!(c02_product_n4_pure, ProductStream, 4, 6, [s0, s1, s2, s3]);
//@ob fn="<ProductStream<T,N,E> as Getter<T,E>>::get" at=src/streams/math.rs:193 prop=C02,C03,C16 instance="arity 5 (const generic; complete for this N)" clause="N=5, all inputs symbolic at once: get()==spec: earliest input error returned unchanged; absent inputs skipped, absent iff all absent; present values left-folded with *= in input order; timestamp = newest contributing (C03); holds for every content of the unwritten MaybeUninit slots (C16)"
nary_harness!(c02_product_n5, ProductStream, tok_mul_assign, 5, 7, [s0, s1, s2, s3, s4]);
//@ob fn="<ProductStream<T,N,E> as Getter<T,E>>::get" at=src/streams/math.rs:193 prop=C02,C16 instance="arity 5 (const generic; complete for this N)" clause="N=5, all inputs symbolic at once: purity: a second get() returns a result equal to the first (also independent of the unwritten MaybeUninit slots, C16), every input still holds the output it had and was not updated"
nary_pure_harness!(c02_product_n5_pure, ProductStream, 5, 7, [s0, s1, s2, s3, s4]);
//@ob fn="<ProductStream<T,N,E> as Getter<T,E>>::get" at=src/streams/math.rs:193 prop=C02,C03,C16 tier=thorough instance="arity 6 (const generic; complete for this N)" clause="N=6, all inputs symbolic at once: get()==spec: earliest input error returned unchanged; absent inputs skipped, absent iff all absent; present values left-folded with *= in input order; timestamp = newest contributing (C03); holds for every content of the unwritten MaybeUninit slots (C16)"
nary_harness!(c02_product_n6, ProductStream, tok_mul_assign, 6, 8, [s0, s1, s2, s3, s4, s5]);
//@ob fn="<ProductStream<T,N,E> as Getter<T,E>>::get" at=src/streams/math.rs:193 prop=C02,C16 tier=thorough instance="arity 6 (const generic; complete for this N)" clause="N=6, all inputs symbolic at once: purity: a second get() returns a result equal to the first (also independent of the unwritten MaybeUninit slots, C16), every input still holds the output it had and was not updated"
nary_pure_harness!(c02_product_n6_pure, ProductStream, 6, 8, [s0, s1, s2, s3, s4, s5]);
//@ob fn="<ProductStream<T,N,E> as Getter<T,E>>::get" at=src/streams/math.rs:193 prop=C02,C03,C16 tier=thorough instance="arity 7 (const generic; complete for this N)" clause="N=7, all inputs symbolic at once: get()==spec: earliest input error returned unchanged; absent inputs skipped, absent iff all absent; present values left-folded with *= in input order; timestamp = newest contributing (C03); holds for every content of the unwritten MaybeUninit slots (C16)"
nary_harness!(c02_product_n7, ProductStream, tok_mul_assign, 7, 9, [s0, s1, s2, s3, s4, s5, s6]);
//@ob fn="<ProductStream<T,N,E> as Getter<T,E>>::get" at=src/streams/math.rs:193 prop=C02,C16 tier=thorough instance="arity 7 (const generic; complete for this N)" clause="N=7, all inputs symbolic at once: purity: a second get() returns a result equal to the first (also independent of the unwritten MaybeUninit slots, C16), every input still holds the output it had and was not updated"
nary_pure_harness!(c02_product_n7_pure, ProductStream, 7, 9, [s0, s1, s2, s3, s4, s5, s6]);
//@ob fn="<ProductStream<T,N,E> as Getter<T,E>>::get" at=src/streams/math.rs:193 prop=C02,C03,C16 tier=thorough instance="arity 8 (const generic; complete for this N)" clause="N=8, all inputs symbolic at once: get()==spec: earliest input error returned unchanged; absent inputs skipped, absent iff all absent; present values left-folded with *= in input order; timestamp = newest contributing (C03); holds for every content of the unwritten MaybeUninit slots (C16)"
nary_harness!(c02_product_n8, ProductStream, tok_mul_assign, 8, 10, [s0, s1, s2, s3, s4, s5, s6, s7]);
//@ob fn="<ProductStream<T,N,E> as Getter<T,E>>::get" at=src/streams/math.rs:193 prop=C02,C16 tier=thorough instance="arity 8 (const generic; complete for this N)" clause="N=8, all inputs symbolic at once: purity: a second get() returns a result equal to the first (also independent of the unwritten MaybeUninit slots, C16), every input still holds the output it had and was not updated"
nary_pure_harness!(c02_product_n8_pure, ProductStream, 8, 10, [s0, s1, s2, s3, s4, s5, s6, s7]);

// ---------------------------------------------------------------------------------------------------------------
// two-input sum / product
// ---------------------------------------------------------------------------------------------------------------
/// Documented outcome of `Sum2` / `Product2`: input 1's error first, then input 2's; "if one input returns
/// Ok(None), the other input's output is returned; if both return Ok(None), returns Ok(None)"; both present:
/// `x op y` with the newest of the two timestamps.
fn spec_two<F: Fn(Tok, Tok) -> Tok>(a: O, b: O, op: F) -> O {
    match (a, b) {
        (Err(e), _) => Err(e),
        (Ok(_), Err(e)) => Err(e),
        (Ok(None), Ok(y)) => Ok(y),
        (Ok(Some(x)), Ok(None)) => Ok(Some(x)),
        (Ok(Some(x)), Ok(Some(y))) => Ok(Some(Datum::new(tmax(x.time, y.time), op(x.value, y.value)))),
    }
}
/// Documented outcome of `DifferenceStream` / `QuotientStream`: input 1's error first, then input 2's (both inputs
/// are read); first operand absent => absent; second operand absent => first passed through unchanged; both
/// present => `a op b` with the newer of the two timestamps.
fn spec_ordered<F: Fn(Tok, Tok) -> Tok>(a: O, b: O, op: F) -> O {
    match (a, b) {
        (Err(e), _) => Err(e),
        (Ok(_), Err(e)) => Err(e),
        (Ok(None), Ok(_)) => Ok(None),
        (Ok(Some(x)), Ok(None)) => Ok(Some(x)),
        (Ok(Some(x)), Ok(Some(y))) => Ok(Some(Datum::new(tmax(x.time, y.time), op(x.value, y.value)))),
    }
}

macro_rules! binary_harness {
    ($name:ident, $stream:ident, $spec:ident, $op:expr) => {
        #[kani::proof]
        fn $name() {
            let mut a = Scripted::<Tok>::new(any_output());
            let mut b = Scripted::<Tok>::new(any_output());
            let (ia, ib) = (a.out, b.out);
            let stream = $stream::<Tok, Scripted<Tok>, Scripted<Tok>, Er>::new(rf(&mut a), rf(&mut b));
            let r1 = stream.get();
            assert!(r1 == $spec(ia, ib, $op));
            // purity
            let r2 = stream.get();
            assert!(r2 == r1);
            assert!(a.out == ia && b.out == ib && a.updates == 0 && b.updates == 0);
            kani::cover!(r1.is_err(), "result is an error");
            kani::cover!(r1 == Ok(None), "result absent");
            kani::cover!(matches!(r1, Ok(Some(_))), "result present");
            kani::cover!(matches!((ia, ib), (Ok(Some(x)), Ok(Some(y))) if x.time < y.time), "both present, first older");
            kani::cover!(matches!((ia, ib), (Ok(Some(x)), Ok(Some(y))) if x.time == y.time), "both present, same time");
            kani::cover!(matches!((ia, ib), (Ok(Some(x)), Ok(Some(y))) if x.time > y.time), "both present, first newer");
            reach!();
        }
    };
}

//@ob fn="<Sum2<T,G1,G2,E> as Getter<T,E>>::get" at=src/streams/math.rs:92 prop=C02,C03 clause="get()==spec for every assignment: input 1's error, else input 2's error, unchanged; one absent => the other's output; both absent => absent; both present => x + y, timestamp = newer of the two (C03); second get() equal, inputs unchanged"
binary_harness!(c02_sum2_spec, Sum2, spec_two, |x: Tok, y: Tok| x + y);
//@ob fn="<Product2<T,G1,G2,E> as Getter<T,E>>::get" at=src/streams/math.rs:254 prop=C02,C03 clause="get()==spec for every assignment: input 1's error, else input 2's error, unchanged; one absent => the other's output; both absent => absent; both present => x * y, timestamp = newer of the two (C03); second get() equal, inputs unchanged"
binary_harness!(c02_product2_spec, Product2, spec_two, |x: Tok, y: Tok| x * y);
//@ob fn="<DifferenceStream<T,GM,GS,E> as Getter<T,E>>::get" at=src/streams/math.rs:142 prop=C02,C03 clause="get()==spec for every assignment: minuend's error first, then subtrahend's, unchanged; minuend absent => absent; subtrahend absent => minuend passed through unchanged; both present => value a - b (operand order fixed by Tok), timestamp = newer of the two (C03); second get() equal, inputs unchanged"
binary_harness!(c02_difference_spec, DifferenceStream, spec_ordered, |x: Tok, y: Tok| x - y);
//@ob fn="<QuotientStream<T,GD,GS,E> as Getter<T,E>>::get" at=src/streams/math.rs:304 prop=C02,C03 clause="get()==spec for every assignment: dividend's error first, then divisor's, unchanged; dividend absent => absent; divisor absent => dividend passed through unchanged; both present => value a / b (operand order fixed by Tok), timestamp = newer of the two (C03); second get() equal, inputs unchanged"
binary_harness!(c02_quotient_spec, QuotientStream, spec_ordered, |x: Tok, y: Tok| x / y);

// the two-input streams agree with the n-ary ones at N = 2 on the same two inputs, for every assignment
macro_rules! agree_harness {
    ($name:ident, $two:ident, $nary:ident) => {
        #[kani::proof]
        #[kani::unwind(4)]
        fn $name() {
            let mut a = Scripted::<Tok>::new(any_output());
            let mut b = Scripted::<Tok>::new(any_output());
            let two = $two::<Tok, Scripted<Tok>, Scripted<Tok>, Er>::new(rf(&mut a), rf(&mut b));
            let nary = $nary::<Tok, 2, Er>::new([rf_dyn(&mut a), rf_dyn(&mut b)]);
            let r_two = two.get();
            let r_nary = nary.get();
            assert!(r_two == r_nary);
            kani::cover!(r_two.is_err(), "result is an error");
            kani::cover!(matches!((a.out, b.out), (Ok(_), Err(_))), "input 1 fine, input 2 error");
            kani::cover!(matches!((a.out, b.out), (Ok(Some(_)), Ok(Some(_)))), "both present");
            reach!();
        }
    };
}
//@ob fn="<Sum2<T,G1,G2,E> as Getter<T,E>>::get" at=src/streams/math.rs:92 prop=C02,C03 clause="Sum2(a,b).get() == SumStream<_,2,_>([a,b]).get() for every assignment of the two inputs (errors, absent, present, all timestamp orders), with T's + and += denoting the same operation"
agree_harness!(c02_sum2_agrees_with_sumstream_n2, Sum2, SumStream);
//@ob fn="<Product2<T,G1,G2,E> as Getter<T,E>>::get" at=src/streams/math.rs:254 prop=C02,C03 clause="Product2(a,b).get() == ProductStream<_,2,_>([a,b]).get() for every assignment of the two inputs (errors, absent, present, all timestamp orders), with T's * and *= denoting the same operation"
agree_harness!(c02_product2_agrees_with_productstream_n2, Product2, ProductStream);

// ---------------------------------------------------------------------------------------------------------------
// exponent (payload f32; powf replaced by a deterministic uninterpreted stand-in, so the value clause reads
// value == powf(base, exponent) for every interpretation of powf, in particular the real one)
// ---------------------------------------------------------------------------------------------------------------
const T_POW: u32 = 0x51ED_270B;
fn powf_standin(x: f32, y: f32) -> f32 {
    fmix(T_POW, x, y)
}
type OF = Output<f32, Er>;
/// structural equality of `Output<f32, _>` with the float compared bit for bit
fn out_bits_eq(a: &OF, b: &OF) -> bool {
    match (a, b) {
        (Err(x), Err(y)) => x == y,
        (Ok(None), Ok(None)) => true,
        (Ok(Some(p)), Ok(Some(q))) => p.time == q.time && feq(p.value, q.value),
        _ => false,
    }
}
fn spec_exponent(a: OF, b: OF) -> OF {
    match (a, b) {
        (Err(e), _) => Err(e),
        (Ok(_), Err(e)) => Err(e),
        (Ok(None), Ok(_)) => Ok(None),
        (Ok(Some(x)), Ok(None)) => Ok(Some(x)),
        (Ok(Some(x)), Ok(Some(y))) => Ok(Some(Datum::new(tmax(x.time, y.time), powf_standin(x.value, y.value)))),
    }
}
//@ob fn="<ExponentStream<GB,GE,E> as Getter<f32,E>>::get" at=src/streams/math.rs:363 prop=C02,C03 also=libm_nocheck,micromath_nocheck clause="get()==spec for every assignment (all f32 bit patterns): base's error first, then exponent's, unchanged; base absent => absent; exponent absent => base passed through bit-unchanged; both present => value == powf(base, exponent) (powf stubbed by an uninterpreted stand-in, argument order fixed), timestamp = newer of the two (C03); second get() equal, inputs unchanged"
#[kani::proof]
#[kani::stub(crate::enhanced_float::powf, powf_standin)]
fn c02_exponent_spec() {
    let mut a = Scripted::<f32>::new(any_output());
    let mut b = Scripted::<f32>::new(any_output());
    let (ia, ib) = (a.out, b.out);
    let stream = ExponentStream::<Scripted<f32>, Scripted<f32>, Er>::new(rf(&mut a), rf(&mut b));
    let r1 = stream.get();
    assert!(out_bits_eq(&r1, &spec_exponent(ia, ib)));
    let r2 = stream.get();
    assert!(out_bits_eq(&r2, &r1));
    assert!(out_bits_eq(&a.out, &ia) && out_bits_eq(&b.out, &ib) && a.updates == 0 && b.updates == 0);
    kani::cover!(r1.is_err(), "result is an error");
    kani::cover!(matches!(r1, Ok(None)), "result absent");
    kani::cover!(matches!((ia, ib), (Ok(Some(x)), Ok(Some(y))) if x.time < y.time), "both present, base older");
    kani::cover!(matches!((ia, ib), (Ok(Some(x)), Ok(Some(y))) if x.time == y.time), "both present, same time");
    kani::cover!(matches!((ia, ib), (Ok(Some(x)), Ok(Some(y))) if x.time > y.time), "both present, base newer");
    reach!();
}
