//@host src/lib.rs
//@always
//@config *
// Shared helpers of the C05 / C15 harness modules (no harness lives here): bit-for-bit equality of every
// state-carrying type (floats compared by `to_bits`, so NaN payloads and signed zeros are distinguished; this is
// what "field-by-field bit-equal" means in the reset / frame / purity clauses), error projections used by the
// freshness clauses, the identity of a `Reference`, and an uninterpreted stand-in for `enhanced_float::powf`.
#![allow(unused_imports, dead_code)]
use crate::*;
use crate::verif_support::*;

pub trait Bits {
    fn beq(&self, o: &Self) -> bool;
}
impl Bits for () { fn beq(&self, _o: &Self) -> bool { true } }
impl Bits for bool { fn beq(&self, o: &Self) -> bool { *self == *o } }
impl Bits for u8 { fn beq(&self, o: &Self) -> bool { *self == *o } }
impl Bits for u32 { fn beq(&self, o: &Self) -> bool { *self == *o } }
impl Bits for i64 { fn beq(&self, o: &Self) -> bool { *self == *o } }
impl Bits for f32 { fn beq(&self, o: &Self) -> bool { feq(*self, *o) } }
impl Bits for Tok { fn beq(&self, o: &Self) -> bool { self.0 == o.0 } }
impl Bits for Time { fn beq(&self, o: &Self) -> bool { self.0 == o.0 } }
impl Bits for Unit { fn beq(&self, o: &Self) -> bool { ueq(*self, *o) } }
impl Bits for Quantity { fn beq(&self, o: &Self) -> bool { feq(self.value, o.value) && ueq(self.unit, o.unit) } }
impl Bits for State { fn beq(&self, o: &Self) -> bool { state_bits_eq(*self, *o) } }
impl Bits for Command { fn beq(&self, o: &Self) -> bool { command_bits_eq(*self, *o) } }
impl Bits for PIDKValues {
    fn beq(&self, o: &Self) -> bool { feq(self.kp, o.kp) && feq(self.ki, o.ki) && feq(self.kd, o.kd) }
}
impl Bits for PositionDerivativeDependentPIDKValues {
    fn beq(&self, o: &Self) -> bool {
        self.position.beq(&o.position) && self.velocity.beq(&o.velocity) && self.acceleration.beq(&o.acceleration)
    }
}
impl<T: Bits> Bits for Datum<T> {
    fn beq(&self, o: &Self) -> bool { self.time.0 == o.time.0 && self.value.beq(&o.value) }
}
impl<T: Bits> Bits for Option<T> {
    fn beq(&self, o: &Self) -> bool {
        match (self, o) {
            (None, None) => true,
            (Some(a), Some(b)) => a.beq(b),
            _ => false,
        }
    }
}
impl<E: Bits + Copy + Debug> Bits for Error<E> {
    fn beq(&self, o: &Self) -> bool {
        match (self, o) {
            (Error::FromNone, Error::FromNone) => true,
            (Error::Other(a), Error::Other(b)) => a.beq(b),
            _ => false,
        }
    }
}
impl<T: Bits, E: Bits> Bits for Result<T, E> {
    fn beq(&self, o: &Self) -> bool {
        match (self, o) {
            (Ok(a), Ok(b)) => a.beq(b),
            (Err(a), Err(b)) => a.beq(b),
            _ => false,
        }
    }
}

/// The error an output carries, if any.
pub fn err_of<T>(o: &Output<T, Er>) -> Option<Error<Er>> {
    match o { Err(e) => Some(*e), Ok(_) => None }
}
/// The error an `update()` / `set()` result carries, if any.
pub fn nerr_of(o: &NothingOrError<Er>) -> Option<Error<Er>> {
    match o { Err(e) => Some(*e), Ok(()) => None }
}
/// The timestamp of a present output.
pub fn time_of<T>(o: &Output<T, Er>) -> Option<Time> {
    match o { Ok(Some(d)) => Some(d.time), _ => None }
}
/// 0 = error, 1 = absent, 2 = present.
pub fn cat_of<T>(o: &Output<T, Er>) -> u8 {
    match o { Err(_) => 0, Ok(None) => 1, Ok(Some(_)) => 2 }
}
/// Address a raw-pointer `Reference` designates (every harness reference is the raw-pointer variant).
pub fn ref_addr<T: ?Sized>(r: &Reference<T>) -> Option<*const ()> {
    match r.clone().into_inner() {
        crate::reference::ReferenceUnsafe::Ptr(p) => Some(p as *const ()),
        _ => None,
    }
}
/// A7: `a - b` does not overflow i64.
pub fn sub_ok(a: Time, b: Time) -> bool { a.0.checked_sub(b.0).is_some() }
/// A7: `a + b` does not overflow i64.
pub fn add_ok(a: Time, b: Time) -> bool { a.0.checked_add(b.0).is_some() }

/// Deterministic uninterpreted stand-in for `enhanced_float::powf` (std `f32::powf` has no CBMC model worth
/// bit-blasting; no C05 clause depends on its value).
pub fn stub_powf(x: f32, y: f32) -> f32 { fmix(0x51ED_270B, x, y) }
